"""C06 Incompatibility constraints are enforced and never over-prune - structural clauses."""
import ast

from ..rules.match import FnText
from ..model import AnalysisError, norm
from ..cfg import build_cfg
from ..astutil import short, call_name
from ..report import fkey
from ..rules import edges, guards, intcmp, persist
from ..rules.common import *

EXPLANATION = (
    'Decides necessary conditions of incompatibility enforcement: (A5) every `return True` of DSG.feasible has '
    'passed the unconnected-connector check and the negative test for confirmed incompatibility edges, and the '
    'influence matrix refuses an infeasible start graph; (A9e, error discipline) each of the three handlers of '
    'IncompatibilityError either transfers the conflicting edges and removed nodes into the result, sets the '
    'infeasible-option flag, or is the one tabled handler; both-ends-confirmed raises, one-end-confirmed removes '
    'the other end; a choice left without options yields marker edges of type INCOMPATIBILITY; constraints are '
    'stored in both directions; (A4) incompatibility scans accept exactly {INCOMPATIBILITY}, the '
    'necessary-deriver search exactly {DERIVES}.  Not decided: the no-over-pruning direction (needs the '
    'independent enumeration).'
    ' (A29) no loop of the graph algorithms reads a name that only an earlier, completed loop binds.')

HANDLER_TABLE = {
    'adsg_core.graph.adsg:DSG.initialize_choices':
        'both ends of the constraint are confirmed by the start nodes, so `feasible` of the returned graph is '
        'already false (the confirmed incompatibility edge is still in the graph)',
}


def feasible_shape(ctx, rule='A5'):
    cls = ctx.prog.cls(DSG)
    fn = cls.methods.get('feasible')
    if fn is None:
        raise AnalysisError('DSG.feasible vanished')
    cfg = build_cfg(fn)
    trues = guards.return_nodes(cfg, lambda r: isinstance(r.value, ast.Constant) and r.value.value is True)
    # `return not <test>`: true exactly on the negative side of the test
    neg = guards.return_nodes(cfg, lambda r: isinstance(r.value, ast.UnaryOp) and isinstance(r.value.op, ast.Not))
    if not trues and not neg:
        raise AnalysisError('DSG.feasible: no return that can report feasibility')
    trues = trues + neg
    chk = guards.call_nodes(cfg, '_check_unconnected_connectors')
    guards.check_passes(ctx, rule, fn, trues, chk, 'connectors-checked',
                        'a graph is reported feasible only after the unconnected-connector check ran')
    # the check is inside a try whose handler returns False
    ok = False
    for t in try_statements(fn):
        if any(call_name(c) == '_check_unconnected_connectors' for b in t.body for c in ast.walk(b)
               if isinstance(c, ast.Call)):
            for h in t.handlers:
                if any(isinstance(s, ast.Return) and isinstance(s.value, ast.Constant) and s.value.value is False
                       for s in h.body) and 'ValueError' in handler_type_names(h):
                    ok = True
    ctx.ob(rule, fkey(fn, rule, 'unconnectable-means-infeasible'), ok, fn.where,
           'the error raised for an unconnectable connector is turned into `feasible == False`', '')
    for n_ in neg:
        x_ = n_.ast.value.operand
        ctx.ob(rule, fkey(fn, rule, 'no-confirmed-incompatibility'), isinstance(x_, ast.Call) and
               call_name(x_) == 'has_confirmed_incompatibility_edges', f'{fn.module.relpath}:{n_.lineno}',
               'a graph is reported feasible only on the negative side of the test for confirmed incompatibility '
               'edges', short(n_.ast))
    if [t_ for t_ in trues if t_ not in neg]:
        guards.check_guarded(ctx, rule, fn, [t_ for t_ in trues if t_ not in neg],
                         lambda atom, truth: truth is False and isinstance(atom, ast.Call) and
                         call_name(atom) == 'has_confirmed_incompatibility_edges', set(),
                         'no-confirmed-incompatibility',
                         'a graph is reported feasible only on the negative side of the test for confirmed '
                         'incompatibility edges')
    h = ctx.fn(f'{DSG}.has_confirmed_incompatibility_edges')
    r = returns_of(h)
    ok = bool(r) and intcmp.emptiness(r[0].value, lambda x: isinstance(x, ast.Call) and
                                      call_name(x) == 'get_confirmed_incompatibility_edges') == 'nonempty'
    ctx.ob(rule, fkey(h, rule, 'has-iff-nonempty'), ok, h.where,
           'has_confirmed_incompatibility_edges() is true iff the set of confirmed incompatibility edges is '
           'non-empty', short(r[0]) if r else 'missing')
    # unconnected check raises ValueError iff some connector is unconnectable
    u = ctx.fn(f'{DSG}._check_unconnected_connectors')
    cfgu = build_cfg(u)
    tests = [n for n in cfgu.nodes if n.kind == 'test']
    ok = bool(tests) and intcmp.emptiness(tests[0].ast, lambda x: isinstance(x, ast.Call) and
                                          call_name(x) == 'get_unconnected_connectors') == 'nonempty' and \
        any(m.kind == 'stmt' and isinstance(m.ast, ast.Raise) for m, lab in tests[0].succ if lab == 'T')
    ctx.ob(rule, fkey(u, rule, 'raises-iff-unconnectable'), ok, u.where,
           'the connector check raises iff the list of unconnectable connectors is non-empty',
           short(tests[0].ast) if tests else 'missing')
    # influence matrix refuses infeasible graphs
    init = ctx.fn(f'{INFL}.__init__')
    cfgi = build_cfg(init)
    tests = [n for n in cfgi.nodes if n.kind == 'test' and 'feasible' in norm(n.ast)]
    ok = bool(tests) and any(m.kind == 'stmt' and isinstance(m.ast, ast.Raise) for m, lab in tests[0].succ
                             if lab == 'T') and 'not adsg.feasible' in norm(tests[0].ast)
    ctx.ob(rule, fkey(init, rule, 'rejects-infeasible-start-graph'), ok, init.where,
           'the influence matrix (and with it every hierarchy analyzer) refuses a graph that is infeasible to '
           'begin with', short(tests[0].ast) if tests else 'missing')


def _returned_and_merged(ctx, f_, h):
    """The handler returns (.., e.removed_nodes, .., e.edges, ..) and every caller of the function in the package merges
    the corresponding elements of the result into sets of its own (tuple unpacking followed by `x |= name` /
    `x.update(name)`)."""
    rets = [r for r in h.body if isinstance(r, ast.Return) and isinstance(r.value, ast.Tuple)]
    if not rets:
        return False
    elts = [norm(x) for x in rets[0].value.elts]
    if f'{h.name}.removed_nodes' not in elts or f'{h.name}.edges' not in elts:
        return False
    need = {elts.index(f'{h.name}.removed_nodes'), elts.index(f'{h.name}.edges')}
    sites = [(g, c) for g in ctx.prog.all_functions() for c in calls(g, f_.name)]
    if not sites:
        return False
    for g, c in sites:
        st = next((a for a in walk_fn(g) if isinstance(a, ast.Assign) and a.value is c and
                   isinstance(a.targets[0], ast.Tuple) and len(a.targets[0].elts) == len(elts)), None)
        if st is None:
            return False
        names = [norm(t) for t in st.targets[0].elts]
        merged = {norm(a.value) for a in walk_fn(g) if isinstance(a, ast.AugAssign) and isinstance(a.op, ast.BitOr)} | \
            {norm(x.args[0]) for x in calls(g, 'update') if x.args}
        if not all(names[i] in merged for i in need):
            return False
    return True


def _transferred_after(f_, t_, h):
    """The handler binds e.removed_nodes and e.edges to locals (`a, b = e.removed_nodes, e.edges`) and, after the try
    statement, both locals are merged into sets (`x |= a` / `x.update(a)`): the try only computes what is merged."""
    bound = {}
    for a in h.body:
        if not isinstance(a, ast.Assign) or len(a.targets) != 1:
            continue
        tg, val = a.targets[0], a.value
        pairs = list(zip(tg.elts, val.elts)) if isinstance(tg, ast.Tuple) and isinstance(val, ast.Tuple) and \
            len(tg.elts) == len(val.elts) else [(tg, val)]
        for t1, v1 in pairs:
            if isinstance(t1, ast.Name) and norm(v1) in (f'{h.name}.removed_nodes', f'{h.name}.edges'):
                bound[norm(v1)] = t1.id
    if len(bound) != 2:
        return False
    end = max(getattr(x, 'end_lineno', x.lineno) for x in ast.walk(t_) if hasattr(x, 'lineno'))
    merged = {norm(a.value) for a in walk_fn(f_) if isinstance(a, ast.AugAssign) and isinstance(a.op, ast.BitOr) and
              a.lineno > end} | \
        {norm(x.args[0]) for x in calls(f_, 'update') if x.args and x.lineno > end}
    return all(nm in merged for nm in bound.values())


def handlers(ctx, rule='A9e'):
    n = 0
    for fn in ctx.prog.all_functions():
        for t in try_statements(fn):
            for h in t.handlers:
                if 'IncompatibilityError' not in handler_type_names(h):
                    continue
                n += 1
                ctx.touch(fn)
                body = ' '.join(norm(s) for s in h.body)
                key = fn.outermost.key
                if key in HANDLER_TABLE:
                    ok = all(isinstance(s, ast.Pass) for s in h.body)
                    ctx.used_exception('A9e', key, HANDLER_TABLE[key])
                    detail = f'tabled: {HANDLER_TABLE[key]}'
                    if not ok:
                        detail = f'the tabled handler is no longer a bare pass: {body[:80]}'
                elif h.name and f'{h.name}.removed_nodes' in body and f'{h.name}.edges' in body:
                    # accumulated into the modification here, or handed back to the caller (a helper wrapping the call)
                    ok = '|=' in body or '.update(' in body or _returned_and_merged(ctx, fn, h) or \
                        _transferred_after(fn, t, h)
                    detail = 'transfers e.removed_nodes and e.edges into the modification'
                elif 'False' in body and ('is_feasible' in body or 'feasible' in body):
                    ok = True
                    detail = 'sets the infeasible flag'
                else:
                    ok = False
                    detail = f'the conflict information is dropped: {body[:100]}'
                ctx.ob(rule, fkey(fn, rule, 'incompatibility-error-handled'), ok,
                       f'{fn.module.relpath}:{h.lineno}',
                       'an IncompatibilityError is never swallowed: the handler transfers the conflicting edges / '
                       'removed nodes, or records infeasibility', detail)
    # marker transfer: the edges of the error become added edges (so that `feasible` sees them)
    fn = ctx.fn(f'{CHOICES}:get_mod_apply_selection_choice')
    ok = False
    for f_ in unit_functions(ctx.prog, fn):
        for t_ in [x for x in ast.walk(f_.node) if isinstance(x, ast.Try)]:
            for h in t_.handlers:
                if 'IncompatibilityError' in handler_type_names(h) and h.name:
                    body = ' '.join(norm(x) for x in h.body)
                    if f'{h.name}.edges' in body and f'{h.name}.removed_nodes' in body and \
                            ('|=' in body or '.update(' in body or _returned_and_merged(ctx, f_, h) or
                             _transferred_after(f_, t_, h)):
                        ok = True
    ctx.ob(rule, fkey(fn, rule, 'conflict-becomes-marker-edges'), ok, fn.where,
           'on a conflict while applying a choice the conflicting edges are *added* to the derived graph (they '
           'make it infeasible) and the nodes removed so far stay removed', '')
    f2 = ctx.fn(f'{INFL}._create_influence_matrix')
    txt = FnText(ctx, f2)
    ok = 'if not opt_is_feasible' in txt and 'matrix[i_opt, i_opt] = Diag.INFEASIBLE_OPTION.value' in txt
    ctx.ob(rule, fkey(f2, rule, 'infeasible-option-flag'), ok, f2.where,
           'an option whose application raises a conflict is flagged INFEASIBLE_OPTION on the matrix diagonal', '')
    return n


def _membership(atom, truth, lhs, container):
    """fact `lhs in container` (whichever way the test is written)"""
    if not (isinstance(atom, ast.Compare) and len(atom.ops) == 1 and norm(atom.left) == lhs and
            norm(atom.comparators[0]) == container):
        return False
    return (isinstance(atom.ops[0], ast.In) and truth is True) or (isinstance(atom.ops[0], ast.NotIn) and truth is False)


def _dominated_by(cfg, node, facts):
    """Is node unreachable from the entry once the edges implying ANY of the facts are removed, for EACH fact (i.e.
    every fact holds whenever node executes)?  `A and B` true-edges imply both conjuncts."""
    for fact in facts:
        edges_ = set(cfg.edges_implying(fact))
        if node.id in cfg.reachable([cfg.entry], blocked_edges=edges_, labels_excluded=('exc',)):
            return False
    return True


def removal_shape(ctx, rule='A5r'):
    fn = inlined_view(ctx.prog, ctx.fn(f'{INCOMP}:get_mod_nodes_remove_incompatibilities'))
    cfg = build_cfg(fn)
    conf = [s_ for s_ in walk_fn(fn) if isinstance(s_, ast.Assign) and isinstance(s_.value, ast.Call) and
            call_name(s_.value) == 'traverse_until_choice_nodes' and isinstance(s_.targets[0], ast.Tuple)]
    if not conf:
        raise AnalysisError('get_mod_nodes_remove_incompatibilities: confirmed set not found')
    confirmed = norm(conf[0].targets[0].elts[0])
    loops = [n for n in cfg.nodes if n.kind == 'for' and isinstance(n.ast.target, ast.Name)]
    edge_vars = {n.ast.target.id for n in loops}
    raises = [n for n in cfg.nodes if n.kind == 'stmt' and isinstance(n.ast, ast.Raise) and
              'IncompatibilityError' in norm(n.ast)]
    # (1) both ends confirmed -> recorded as a conflict that raises
    adds = [n for n in cfg.nodes if n.kind == 'stmt' and isinstance(n.ast, ast.Expr) and
            isinstance(n.ast.value, ast.Call) and call_name(n.ast.value) == 'add' and n.ast.value.args and
            isinstance(n.ast.value.args[0], ast.Name) and n.ast.value.args[0].id in edge_vars]
    conflict_sets = set()
    ok = False
    for a in adds:
        ev = a.ast.value.args[0].id
        if _dominated_by(cfg, a, [lambda at, t, ev=ev: _membership(at, t, f'{ev}[0]', confirmed),
                                  lambda at, t, ev=ev: _membership(at, t, f'{ev}[1]', confirmed)]):
            ok = True
            conflict_sets.add(norm(a.ast.value.func.value))
    ctx.ob(rule, fkey(fn, rule, 'both-confirmed-is-conflict'), ok, fn.where,
           'an incompatibility edge whose two ends are both confirmed is recorded as a conflict', '')
    # names the conflict set is handed on to (`a, b = x, y` / `a = x`: results of a spliced-in helper)
    for _ in range(2):
        for a_ in walk_fn(fn):
            if isinstance(a_, ast.Assign) and len(a_.targets) == 1:
                t_, v_ = a_.targets[0], a_.value
                pairs = list(zip(t_.elts, v_.elts)) if isinstance(t_, ast.Tuple) and isinstance(v_, ast.Tuple) and \
                    len(t_.elts) == len(v_.elts) else [(t_, v_)]
                for tt, vv in pairs:
                    if isinstance(tt, ast.Name) and isinstance(vv, ast.Name) and vv.id in conflict_sets:
                        conflict_sets.add(tt.id)
    ok = False
    for r in raises:
        for p, lab in r.pred:
            if p.kind == 'test' and lab == 'T' and intcmp.emptiness(
                    p.ast, lambda x: isinstance(x, ast.Name) and x.id in conflict_sets) == 'nonempty':
                ok = True
            if p.kind == 'test' and lab == 'F' and intcmp.emptiness(
                    p.ast, lambda x: isinstance(x, ast.Name) and x.id in conflict_sets) == 'empty':
                ok = True
    ctx.ob(rule, fkey(fn, rule, 'conflict-raises'), ok, fn.where,
           'any recorded conflict raises IncompatibilityError (carrying the edges and the nodes removed so far)',
           f'{len(raises)} raise(s)')
    # (2) confirmed source -> the target end is put into the removal set
    rem = [n for n in cfg.nodes if n.kind == 'stmt' and isinstance(n.ast, ast.Expr) and
           isinstance(n.ast.value, ast.Call) and call_name(n.ast.value) == 'add' and n.ast.value.args and
           isinstance(n.ast.value.args[0], ast.Subscript) and norm(n.ast.value.args[0].slice) == '1' and
           norm(n.ast.value.args[0].value) in edge_vars]
    ok = any(_dominated_by(cfg, a, [lambda at, t, a=a: _membership(at, t, norm(a.ast.value.args[0].value) + '[0]',
                                                                    confirmed)]) for a in rem)
    ctx.ob(rule, fkey(fn, rule, 'confirmed-source-removes-target'), ok, fn.where,
           'when the source end of an incompatibility edge is confirmed the target end is removed (constraints '
           'are stored in both directions, so this covers either end)', '')
    # (3) a confirmed node among the nodes that necessarily derive the target -> conflict
    der = [s_ for s_ in walk_fn(fn) if isinstance(s_, ast.Assign) and isinstance(s_.value, ast.Call) and
           call_name(s_.value) == 'get_incompatibility_deriving_nodes']
    deriving = norm(der[0].targets[0]) if der else None

    def overlap(at, t):
        if deriving is None or deriving not in norm(at) or confirmed not in norm(at):
            return False
        if isinstance(at, ast.Call) and call_name(at) == 'isdisjoint':
            return t is False
        inter = lambda e: isinstance(e, ast.BinOp) and isinstance(e.op, ast.BitAnd) and \
            {norm(e.left), norm(e.right)} == {deriving, confirmed}
        r_ = intcmp.emptiness(at, inter)
        return (r_ == 'nonempty' and t is True) or (r_ == 'empty' and t is False)
    ok = any(_dominated_by(cfg, r, [overlap]) for r in raises)
    ctx.ob(rule, fkey(fn, rule, 'confirmed-deriver-is-conflict'), ok, fn.where,
           'if a node that necessarily derives the incompatible node is itself confirmed, the graph is in '
           'conflict (raise)', '')
    add = ctx.fn(f'{INCOMP}:add_incompatibility_constraint')
    t2 = FnText(ctx, add)
    ok = 'itertools.permutations(nodes, 2)' in t2 and 'EdgeType.INCOMPATIBILITY' in t2
    ctx.ob(rule, fkey(add, rule, 'stored-in-both-directions'), ok, add.where,
           'an incompatibility constraint over a node set is stored as INCOMPATIBILITY edges for every ordered '
           'pair (both directions)', t2[:120])
    # a choice without options: marker edges (looked for in the function and the helpers extracted from it)
    sel = ctx.fn(f'{CHOICES}:get_mod_apply_selection_choice')
    ok = False
    for f_ in unit_functions(ctx.prog, sel):
        cf = build_cfg(f_)
        tests = [n for n in cf.nodes if n.kind == 'test' and intcmp.emptiness(
            n.ast, lambda x: isinstance(x, ast.Name) and 'option' in x.id) in ('empty', 'nonempty')]
        for t in tests:
            lab_empty = 'T' if intcmp.emptiness(t.ast, lambda x: isinstance(x, ast.Name) and 'option' in x.id) == 'empty' else 'F'
            stack = [m for m, lab in t.succ if lab == lab_empty]
            seen = set()
            blk = ''
            while stack:
                n = stack.pop()
                if n.id in seen or n.kind in ('exit', 'raise'):
                    continue
                seen.add(n.id)
                if n.ast is not None:
                    blk += norm(n.ast) + ' '
                    # follow a returned helper call one level
                    for c in ast.walk(n.ast):
                        if isinstance(c, ast.Call) and isinstance(c.func, ast.Name) and c.func.id.startswith('_'):
                            h = next((u for u in unit_functions(ctx.prog, sel) if u.name == c.func.id), None)
                            if h is not None:
                                blk += ' '.join(norm(x) for x in h.body) + ' '
                if not (n.kind == 'stmt' and isinstance(n.ast, ast.Return)):
                    stack += [m for m, _ in n.succ]
            if 'EdgeType.INCOMPATIBILITY' in blk and 'predecessors(' in blk:
                ok = True
    ctx.ob(rule, fkey(sel, rule, 'no-option-marker'), ok, sel.where,
           'applying a choice that has no option left adds an INCOMPATIBILITY marker edge to every originating '
           'node (the branch becomes infeasible instead of silently losing the choice)', '')
    conf_fn = ctx.fn(f'{INCOMP}:get_confirmed_incompatibility_edges')
    ok = False
    detail = ''
    for f_ in unit_functions(ctx.prog, conf_fn):
        for b in ast.walk(f_.node):
            if isinstance(b, ast.BoolOp) and isinstance(b.op, ast.Or) and len(b.values) == 2 and \
                    all(isinstance(v, ast.Compare) and len(v.ops) == 1 and isinstance(v.ops[0], ast.In)
                        for v in b.values):
                l0, l1 = norm(b.values[0].left), norm(b.values[1].left)
                if norm(b.values[0].comparators[0]) == norm(b.values[1].comparators[0]) and \
                        {l0[-3:], l1[-3:]} == {'[0]', '[1]'} and l0[:-3] == l1[:-3]:
                    ok = True
                    detail = short(b)
    ctx.ob(rule, fkey(conf_fn, rule, 'edge-at-confirmed-node'), ok, conf_fn.where,
           'an incompatibility edge counts as confirmed as soon as one of its ends is confirmed (the other end '
           'should have been removed; marker edges start at a start node)', detail)


def confirmed_never_removed(ctx, rule='A6c'):
    """The set of nodes that `get_mod_nodes_remove_incompatibilities` hands out for removal (returned, or carried by
    the IncompatibilityError whose handlers remove it from the graph) never contains a confirmed node: where nodes
    that may be confirmed enter the set (the nodes *deriving* an incompatible target), every way out either knows
    that none of them is confirmed or subtracts the confirmed set first."""
    fn = inlined_view(ctx.prog, ctx.fn(f'{INCOMP}:get_mod_nodes_remove_incompatibilities'))
    cfg = build_cfg(fn)
    conf = [s for s in walk_fn(fn) if isinstance(s, ast.Assign) and isinstance(s.value, ast.Call) and
            call_name(s.value) == 'traverse_until_choice_nodes']
    if not conf or not isinstance(conf[0].targets[0], ast.Tuple):
        raise AnalysisError('get_mod_nodes_remove_incompatibilities: confirmed set not found')
    confirmed = norm(conf[0].targets[0].elts[0])
    rets = [n for n in cfg.nodes if n.kind == 'stmt' and isinstance(n.ast, ast.Return) and
            isinstance(n.ast.value, ast.Name)]
    if not rets:
        raise AnalysisError('get_mod_nodes_remove_incompatibilities: returned set not found')
    removed = rets[-1].ast.value.id
    derivs = [s for s in walk_fn(fn) if isinstance(s, ast.Assign) and isinstance(s.value, ast.Call) and
              call_name(s.value) == 'get_incompatibility_deriving_nodes']
    if not derivs:
        raise AnalysisError('get_mod_nodes_remove_incompatibilities: deriving-node computation not found')
    deriving = norm(derivs[0].targets[0])
    taints = [n for n in cfg.nodes if n.kind == 'stmt' and isinstance(n.ast, ast.AugAssign) and
              isinstance(n.ast.op, ast.BitOr) and norm(n.ast.target) == removed and norm(n.ast.value) == deriving]
    taints += [n for n in cfg.nodes if n.kind == 'stmt' and isinstance(n.ast, ast.Expr) and
               isinstance(n.ast.value, ast.Call) and call_name(n.ast.value) == 'update' and
               norm(n.ast.value.func.value) == removed and n.ast.value.args and norm(n.ast.value.args[0]) == deriving]
    if not taints:
        raise AnalysisError('get_mod_nodes_remove_incompatibilities: deriving nodes no longer enter the removed set')

    def is_sanitizer(n):
        a = n.ast
        if n.kind != 'stmt':
            return False
        if isinstance(a, ast.AugAssign) and isinstance(a.op, ast.Sub) and norm(a.target) == removed and \
                norm(a.value) == confirmed:
            return True
        if isinstance(a, ast.Assign) and norm(a.targets[0]) == removed and isinstance(a.value, ast.BinOp) and \
                isinstance(a.value.op, ast.Sub) and norm(a.value.left) == removed and norm(a.value.right) == confirmed:
            return True
        if isinstance(a, ast.Expr) and isinstance(a.value, ast.Call) and call_name(a.value) == 'difference_update' and \
                norm(a.value.func.value) == removed and a.value.args and norm(a.value.args[0]) == confirmed:
            return True
        return False
    sanit = [n for n in cfg.nodes if is_sanitizer(n)]

    def none_confirmed(atom, truth):
        # `len(deriving & confirmed) > 0` is false / `deriving & confirmed` is falsy / `.isdisjoint` is true
        t = norm(atom)
        if deriving not in t or confirmed not in t:
            return False
        if isinstance(atom, ast.Call) and call_name(atom) == 'isdisjoint':
            return truth is True
        from ..rules import intcmp
        inter = lambda e: isinstance(e, ast.BinOp) and isinstance(e.op, ast.BitAnd) and \
            {norm(e.left), norm(e.right)} == {deriving, confirmed}
        r = intcmp.emptiness(atom, inter)
        return (r == 'empty' and truth is True) or (r == 'nonempty' and truth is False)
    exempt = cfg.edges_implying(none_confirmed)
    sinks = list(rets) + [n for n in cfg.nodes if n.kind == 'stmt' and isinstance(n.ast, ast.Raise) and
                          n.ast.exc is not None and removed in {x.id for x in ast.walk(n.ast.exc) if isinstance(x, ast.Name)}]
    starts = [m for t in taints for m, lab in t.succ if lab != 'exc']
    reach = cfg.reachable(starts, blocked_nodes=sanit, blocked_edges=exempt, labels_excluded=('exc',))
    for i, sk in enumerate(sinks):
        bad = sk.id in reach
        detail = f'{len(sanit)} subtraction(s) of `{confirmed}`, {len(exempt)} edge(s) knowing that no deriving node is confirmed'
        if bad:
            p = None
            for st in starts:
                p = cfg.find_path(st, sk, blocked_nodes=sanit, blocked_edges=exempt, labels_excluded=('exc',))
                if p:
                    break
            detail = f'`{removed}` can reach this exit with confirmed nodes in it: {guards.path_text(p) if p else ""}'
        ctx.ob(rule, fkey(fn, rule, f'confirmed-not-handed-out:{short(sk.ast, 40)}'), not bad,
               f'{fn.module.relpath}:{sk.lineno}',
               f'the removal set leaves the function without confirmed nodes (`{removed} -= {confirmed}` or the knowledge '
               f'that no deriving node is confirmed)', detail)


def infeasibility_monotone(ctx, rule='A5r'):
    """Once a confirmed incompatibility made a graph infeasible, every graph derived from it by further selections
    is infeasible too.  The marking edges are ordinary incompatibility edges (directed by node name), and the removal
    pass of the next selection may remove the unconfirmed end together with them; `get_mod_apply_selection_choice`
    therefore hands the confirmed incompatibility edges of the graph it was given back as edges to (re-)add."""
    fn = ctx.fn(f'{CHOICES}:get_mod_apply_selection_choice')
    cfg = build_cfg(fn)
    rets = [r for r in guards.return_nodes(cfg) if isinstance(r.ast.value, ast.Tuple) and len(r.ast.value.elts) == 3 and
            isinstance(r.ast.value.elts[2], ast.Name)]
    if not rets:
        raise AnalysisError('get_mod_apply_selection_choice: return of the modification not found')
    full = rets[-1]
    added = full.ast.value.elts[2].id
    graph_p, start_p = fn.params[0], fn.params[1]

    def keeps(sub):
        if not (isinstance(sub, ast.Call) and call_name(sub) == 'get_confirmed_incompatibility_edges' and
                len(sub.args) >= 2 and norm(sub.args[0]) == graph_p and norm(sub.args[1]) == start_p):
            return False
        return True
    through = [n for n in guards.nodes_with(cfg, keeps) if n.kind == 'stmt' and
               isinstance(n.ast, (ast.AugAssign, ast.Assign, ast.Expr)) and added in norm(n.ast)]
    # ... or a helper extracted from this function does it on the set it is handed
    for h in unit_functions(ctx.prog, fn)[1:]:
        hcalls = [c for c in walk_fn(h) if isinstance(c, ast.Call) and call_name(c) == 'get_confirmed_incompatibility_edges']
        if not hcalls:
            continue
        through += [n for n in cfg.nodes if n.ast is not None and n.kind in ('stmt', 'test') and
                    any(isinstance(c, ast.Call) and call_name(c) == h.name and
                        any(isinstance(a, ast.Name) and a.id == added for a in list(c.args) + [k.value for k in c.keywords])
                        for c in ast.walk(n.ast))]
    guards.check_passes(ctx, rule, fn, [full], through, 'infeasibility-marking-kept',
                        'the modification returned for an applied selection re-adds the confirmed incompatibility edges '
                        'of the incoming graph (an infeasible graph never becomes feasible by taking further choices)')


def resolved_on_every_apply(ctx, rule='A5r'):
    """Applying a selection choice always evaluates the incompatibility constraints of the graph for the new set of
    confirmed nodes: the resolver (get_mod_nodes_remove_incompatibilities, directly or through a private helper) lies
    on every path to the return of the full modification.  A shortcut ("only if the chosen option itself is part of a
    constraint") misses constraints on nodes the option derives."""
    fn0 = ctx.fn(f'{CHOICES}:get_mod_apply_selection_choice')
    fn = inlined_view(ctx.prog, fn0)
    cfg = build_cfg(fn)
    wrappers = {u.name for u in unit_functions(ctx.prog, fn0)[1:]
                if any(True for _ in calls(u, 'get_mod_nodes_remove_incompatibilities'))}
    through = [n for n in cfg.nodes if n.ast is not None and any(
        isinstance(c, ast.Call) and (call_name(c) == 'get_mod_nodes_remove_incompatibilities' or call_name(c) in wrappers)
        for c in ast.walk(n.ast if n.kind != 'for' else n.ast.iter))]
    rets = [n for n in cfg.nodes if n.kind == 'stmt' and isinstance(n.ast, ast.Return)]
    if not rets or not through:
        raise AnalysisError('get_mod_apply_selection_choice: resolver call / final return not found')
    final = max(rets, key=lambda n: n.lineno)
    guards.check_passes(ctx, rule, fn0, [final], through, 'incompatibilities-resolved-on-every-apply',
                        'the full modification of an applied selection choice is returned only after the '
                        'incompatibility constraints were evaluated for the new confirmed nodes')


def check(ctx):
    # copy/paste slips between the consecutive loops of the graph algorithms (F-seed C06-9)
    guards.check_stale_loop_variables(ctx, [f for f in ctx.prog.all_functions() if f.module.name.startswith('adsg_core.graph.')])
    ctx.floor('A29', 1, 'pairs of consecutive loops in the graph algorithms')
    resolved_on_every_apply(ctx)
    feasible_shape(ctx)
    handlers(ctx)
    removal_shape(ctx)
    confirmed_never_removed(ctx)
    infeasibility_monotone(ctx)
    from . import c02 as _c02
    guards.check_accumulators_threaded(ctx, [f for f in ctx.prog.all_functions() if f.module.name.startswith('adsg_core.graph.')],
                                       subsumed=_c02.closure_subsumes(ctx, _c02.start_closure(ctx)))
    # graph algorithms memoise in caller-provided cache dicts: keys must cover what the value depends on
    persist.check_memo_functions(ctx, [f for f in ctx.prog.all_functions() if f.module.name.startswith('adsg_core.graph.')])
    edges.check_walks(ctx, categories={'incompat-scan', 'derivation', 'default'},
                      anchors=[f'{INCOMP}:get_confirmed_incompatibility_edges',
                               f'{INCOMP}:get_mod_nodes_remove_incompatibilities',
                               f'{INCOMP}:get_incompatibility_deriving_nodes'])
    edges.check_exhaustive_scans(ctx)
    ctx.floor('A9e', 4, 'handlers of IncompatibilityError')
    ctx.floor('A4', 15, 'walks')
    # design-vector position vs selection-choice position (forced choices have no variable): the decode keeps the
    # two index spaces apart
    from ..rules import indexspace as _ix21
    _ix21.check_index_spaces(ctx, [f'{GP}.get_graph', f'{GP}._update_comb_fixed_mask'])
    _ix21.check_translation(ctx)


from ..selftest import V  # noqa: E402

VARIANTS = [
    V('stale-loop-variable-in-option-decision-check', 'graph/incompatibility.py',
      [("        option_nodes = {edge[1] for edge in iter_out_edges_cached(graph, option_decision_node, cache=cache)",
        "        option_nodes = {edge[1] for edge in iter_out_edges_cached(graph, deriving_node, cache=cache)")],
      key='stale-loop-variable'),
    V('infeasibility-marking-dropped-by-later-choice', 'graph/choices.py',
      [("    added_edges |= get_confirmed_incompatibility_edges(graph, start_nodes)\n", "")], key='infeasibility-marking-kept'),
    V('confirmed-upstream-node-handed-out', 'graph/incompatibility.py',
      [("            removed_nodes -= confirmed_nodes\n", "            removed_nodes -= start_nodes\n")], key='A6c'),
    V('twin-confirmed-subtracted-by-method', 'graph/incompatibility.py',
      [("            removed_nodes -= confirmed_nodes\n", "            removed_nodes.difference_update(confirmed_nodes)\n")], expect='silent'),
    V('feasible-ignores-incompatibility', 'graph/adsg.py',
      [("        if self.has_confirmed_incompatibility_edges():\n            return False\n        return True", "        return True")],
      key='no-confirmed-incompatibility'),
    V('feasible-skips-connector-check', 'graph/adsg.py',
      [("        try:\n            self._check_unconnected_connectors()\n        except ValueError:\n            return False\n        if self.has", "        if self.has")],
      key='connectors-checked'),
    V('conflict-swallowed-on-apply', 'graph/choices.py',
      [("    except IncompatibilityError as e:\n        removed_nodes |= e.removed_nodes\n        added_edges |= e.edges\n", "    except IncompatibilityError as e:\n        removed_nodes |= e.removed_nodes\n")],
      key='incompatibility-error-handled'),
    V('infeasible-option-not-flagged', 'graph/influence_matrix.py',
      [("            except IncompatibilityError:\n                confirmed_nodes, removed_nodes, is_feasible = set(), set(), False\n", "            except IncompatibilityError:\n                confirmed_nodes, removed_nodes, is_feasible = set(), set(), True\n")],
      key='incompatibility-error-handled'),
    V('scan-includes-excludes', 'graph/incompatibility.py',
      [("    for edge in iter_edges(graph):\n        if get_edge_type(edge) != EdgeType.INCOMPATIBILITY:\n            continue\n\n        # If both nodes",
        "    for edge in iter_edges(graph):\n        if get_edge_type(edge) not in (EdgeType.INCOMPATIBILITY, EdgeType.EXCLUDES):\n            continue\n\n        # If both nodes")],
      key='get_mod_nodes_remove_incompatibilities'),
    V('deriver-search-follows-connects', 'graph/incompatibility.py',
      [("    for edge in iter_in_edges_cached(graph, target_node, cache=cache):\n        if get_edge_type(edge) != EdgeType.DERIVES:\n            continue", "    for edge in iter_in_edges_cached(graph, target_node, cache=cache):\n        if get_edge_type(edge) not in (EdgeType.DERIVES, EdgeType.CONNECTS):\n            continue")],
      key='get_incompatibility_deriving_nodes'),
    V('one-direction-only', 'graph/incompatibility.py',
      [("itertools.permutations(nodes, 2)", "itertools.combinations(nodes, 2)")], key='stored-in-both-directions'),
    V('both-confirmed-not-conflict', 'graph/incompatibility.py',
      [("    if len(infeasible_incompatibility_edges) > 0:\n        raise IncompatibilityError('Could not resolve incompatibility constraints', infeasible_incompatibility_edges,\n                                   removed_nodes)\n", "")],
      key='conflict-raises'),
    V('infeasible-start-graph-accepted', 'graph/influence_matrix.py',
      [("        if adsg.derivation_start_nodes is None or not adsg.feasible:", "        if adsg.derivation_start_nodes is None:")],
      key='rejects-infeasible-start-graph'),
    V('twin-has-edges-bool', 'graph/adsg.py',
      [("        return len(self.get_confirmed_incompatibility_edges()) > 0", "        return len(self.get_confirmed_incompatibility_edges()) != 0")], expect='silent'),
]
