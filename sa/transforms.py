"""Behaviour-preserving whole-package rewrites used to test that the checks stay silent on code that means the
same (self-test tier and tools/benign.py).  None of them is used to decide anything.

  rename    every local variable that is only used inside its own function body gets the suffix `_rn`
  swapcmp   single-operator comparisons with side-effect free operands are turned round (`a == b` -> `b == a`,
            `a < b` -> `b > a`)
  pad       a `pass` statement is inserted before every statement of every function body
  ifnot     `if c: A else: B` -> `if not c: B else: A`
  unparse   ast.unparse round trip only (layout, comments, quotes, parentheses)
"""
import ast
import os


class Rename(ast.NodeTransformer):
    def visit_FunctionDef(self, node):
        self.generic_visit(node)            # inner functions first
        params = {a.arg for a in node.args.args + node.args.kwonlyargs + node.args.posonlyargs}
        if node.args.vararg: params.add(node.args.vararg.arg)
        if node.args.kwarg: params.add(node.args.kwarg.arg)
        declared, nested_used, stores = set(), set(), set()

        def walk(n, nested):
            for ch in ast.iter_child_nodes(n):
                inner = nested or isinstance(ch, (ast.FunctionDef, ast.AsyncFunctionDef, ast.Lambda, ast.ClassDef))
                if isinstance(ch, (ast.Global, ast.Nonlocal)):
                    declared.update(ch.names)
                if isinstance(ch, ast.Name):
                    if inner:
                        nested_used.add(ch.id)
                    elif isinstance(ch.ctx, (ast.Store, ast.Del)):
                        stores.add(ch.id)
                if isinstance(ch, ast.ExceptHandler) and ch.name and not inner:
                    declared.add(ch.name)            # keep handler names
                if isinstance(ch, (ast.FunctionDef, ast.AsyncFunctionDef, ast.ClassDef)) and not nested:
                    declared.add(ch.name)
                if isinstance(ch, (ast.Import, ast.ImportFrom)) and not inner:
                    for al in ch.names:
                        declared.add((al.asname or al.name).split('.')[0])
                walk(ch, inner)
        for st in node.body:
            walk(ast.Module(body=[st], type_ignores=[]), False)
        targets = {s for s in stores if s not in params and s not in declared and s not in nested_used
                   and not s.startswith('__')}

        class R(ast.NodeTransformer):
            def visit_FunctionDef(self, n): return n
            visit_AsyncFunctionDef = visit_FunctionDef
            def visit_Lambda(self, n): return n
            def visit_ClassDef(self, n): return n
            def visit_Name(self, n):
                if n.id in targets:
                    n.id = n.id + '_rn'
                return n
        r = R()
        node.body = [r.visit(st) for st in node.body]
        return node
    visit_AsyncFunctionDef = visit_FunctionDef


_FLIP = {ast.Eq: ast.Eq, ast.NotEq: ast.NotEq, ast.Lt: ast.Gt, ast.Gt: ast.Lt, ast.LtE: ast.GtE, ast.GtE: ast.LtE}


def _pure(e):
    if isinstance(e, (ast.Name, ast.Constant)):
        return True
    if isinstance(e, ast.Attribute):
        return _pure(e.value)
    if isinstance(e, ast.UnaryOp):
        return _pure(e.operand)
    if isinstance(e, ast.Call) and isinstance(e.func, ast.Name) and e.func.id == 'len' and len(e.args) == 1:
        return _pure(e.args[0])
    return False


class SwapCmp(ast.NodeTransformer):
    def visit_Compare(self, node):
        self.generic_visit(node)
        if len(node.ops) == 1 and type(node.ops[0]) in _FLIP and _pure(node.left) and _pure(node.comparators[0]):
            # keep numpy semantics safe: only when at least one side is a constant or both are plain names
            return ast.Compare(left=node.comparators[0], ops=[_FLIP[type(node.ops[0])]()], comparators=[node.left])
        return node


class Pad(ast.NodeTransformer):
    def visit_FunctionDef(self, node):
        self.generic_visit(node)
        body = []
        for i, st in enumerate(node.body):
            if not (i == 0 and isinstance(st, ast.Expr) and isinstance(st.value, ast.Constant)):
                body.append(ast.Pass())
            body.append(st)
        node.body = body
        return node
    visit_AsyncFunctionDef = visit_FunctionDef


class IfNot(ast.NodeTransformer):
    def visit_If(self, node):
        self.generic_visit(node)
        if node.orelse and not (len(node.orelse) == 1 and isinstance(node.orelse[0], ast.If)):
            return ast.If(test=ast.UnaryOp(op=ast.Not(), operand=node.test), body=node.orelse, orelse=node.body)
        return node







class _DefIndex(ast.NodeVisitor):
    def __init__(self):
        self.defs = {}

    def visit_FunctionDef(self, node):
        self.defs.setdefault(node.name, []).append(node)
        self.generic_visit(node)
    visit_AsyncFunctionDef = visit_FunctionDef


_PKG_DEFS = {}


def index_package(pkg_dir):
    """name -> the single def with that name in the package (names defined more than once are dropped)."""
    idx = _DefIndex()
    for root, _, files in os.walk(pkg_dir):
        for f in files:
            if f.endswith('.py'):
                with open(os.path.join(root, f), encoding='utf-8') as fp:
                    idx.visit(ast.parse(fp.read()))
    import builtins
    lib = set(dir(dict)) | set(dir(list)) | set(dir(set)) | set(dir(str)) | set(dir(builtins))
    try:
        import numpy as np, networkx as nx
        lib |= set(dir(np)) | set(dir(np.ndarray)) | set(dir(nx.MultiDiGraph)) | set(dir(nx))
    except ImportError:
        pass
    _PKG_DEFS.clear()
    for name, ds in idx.defs.items():
        if len(ds) == 1 and name not in lib and not name.startswith('__'):
            d = ds[0]
            if d.args.vararg or d.args.posonlyargs:
                continue
            decos = {ast.unparse(x) for x in d.decorator_list}
            if decos - {'staticmethod', 'classmethod', 'cached_function'}:
                continue
            _PKG_DEFS[name] = d


class PosToKw(ast.NodeTransformer):
    """`f(a, b, c)` -> `f(a, y=b, z=c)` for calls whose callee name is defined exactly once in the package."""
    def visit_Call(self, node):
        self.generic_visit(node)
        name = node.func.attr if isinstance(node.func, ast.Attribute) else \
            (node.func.id if isinstance(node.func, ast.Name) else None)
        d = _PKG_DEFS.get(name)
        if d is None or any(isinstance(a, ast.Starred) for a in node.args) or len(node.args) < 2:
            return node
        params = [a.arg for a in d.args.args]
        is_method = bool(params) and params[0] in ('self', 'cls')
        bound = isinstance(node.func, ast.Attribute)
        if is_method and bound:
            params = params[1:]
        elif is_method and not bound:
            return node
        if len(node.args) > len(params):
            return node
        used = {k.arg for k in node.keywords}
        keep, conv = node.args[:1], node.args[1:]
        names = params[1:1 + len(conv)]
        if any(nm in used for nm in names):
            return node
        node.args = keep
        node.keywords = [ast.keyword(arg=nm, value=v) for nm, v in zip(names, conv)] + node.keywords
        return node



class RetVar(ast.NodeTransformer):
    """`return <expr>` -> `_ret = <expr>; return _ret` (expr not already a plain name / constant)."""
    def _fix(self, body):
        out = []
        for st in body:
            if isinstance(st, ast.Return) and st.value is not None and not isinstance(st.value, (ast.Name, ast.Constant)):
                out.append(ast.Assign(targets=[ast.Name(id='_ret', ctx=ast.Store())], value=st.value, lineno=st.lineno))
                out.append(ast.Return(value=ast.Name(id='_ret', ctx=ast.Load())))
            else:
                out.append(st)
        return out

    def generic_visit(self, node):
        node = super().generic_visit(node)
        if isinstance(node, ast.Lambda):
            return node
        for f in ('body', 'orelse', 'finalbody'):
            b = getattr(node, f, None)
            if isinstance(b, list) and b and isinstance(b[0], ast.stmt):
                setattr(node, f, self._fix(b))
        return node


def _terminates(body):
    return bool(body) and isinstance(body[-1], (ast.Return, ast.Raise, ast.Continue, ast.Break))


class ElseAfterExit(ast.NodeTransformer):
    """guard-clause style <-> if/else: `if c: ...return` followed by the rest  ->  `if c: ...return  else: rest`
    (only at the end of a function body / loop body, so that nothing follows the new else)."""
    def _fix(self, body, allowed):
        if not allowed:
            return body
        for i, st in enumerate(body[:-1]):
            if isinstance(st, ast.If) and not st.orelse and _terminates(st.body):
                rest = body[i + 1:]
                st.orelse = self._fix(rest, True)
                return body[:i + 1]
        return body

    def visit_FunctionDef(self, node):
        self.generic_visit(node)
        node.body = self._fix(node.body, True)
        return node
    visit_AsyncFunctionDef = visit_FunctionDef

    def visit_For(self, node):
        self.generic_visit(node)
        node.body = self._fix(node.body, True)
        return node
    visit_While = visit_For


class Msg(ast.NodeTransformer):
    """Every string literal inside a `raise` (error message) gets a trailing full stop."""
    def visit_Raise(self, node):
        for sub in ast.walk(node):
            if isinstance(sub, ast.Constant) and isinstance(sub.value, str) and sub.value.strip():
                sub.value = sub.value + '.'
        return node


TRANSFORMS = {'retvar': RetVar, 'elseexit': ElseAfterExit, 'msg': Msg, 'pos2kw': PosToKw, 'rename': Rename, 'swapcmp': SwapCmp, 'pad': Pad, 'ifnot': IfNot, 'unparse': None}


def apply_to_package(pkg_dir, name):
    """Rewrite every module below pkg_dir (tests excluded) in place; returns the number of modules."""
    tr = TRANSFORMS[name]
    if name == 'pos2kw':
        index_package(pkg_dir)
    n = 0
    for root, _, files in os.walk(pkg_dir):
        if '/tests' in root + '/':
            continue
        for f in files:
            if f.endswith('.py'):
                p = os.path.join(root, f)
                with open(p, encoding='utf-8') as fp:
                    tree = ast.parse(fp.read())
                if tr is not None:
                    tree = tr().visit(tree)
                ast.fix_missing_locations(tree)
                with open(p, 'w', encoding='utf-8') as fp:
                    fp.write(ast.unparse(tree) + '\n')
                n += 1
    return n
