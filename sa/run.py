"""Driver: `python -m sa.run <property> --tier quick|thorough [--explain path]`."""
import argparse
import importlib
import os
import sys
import time
import traceback

from .model import Program, AnalysisError
from .callgraph import CallGraph
from . import report


def main(argv=None):
    ap = argparse.ArgumentParser()
    ap.add_argument('prop')
    ap.add_argument('--tier', default=os.environ.get('VERIF_TIER', 'quick'), choices=['quick', 'thorough'])
    ap.add_argument('--explain', default=None)
    ap.add_argument('--repo', default=None)
    ap.add_argument('--no-selftest', action='store_true')
    args = ap.parse_args(argv)
    prop = args.prop.upper()
    seed = int(os.environ.get('VERIF_SEED', '0') or 0)
    t0 = time.time()
    try:
        if args.explain:
            import json
            with open(args.explain) as fp:
                for o in json.load(fp):
                    print(f"{o['where']}  {o['rule']}  {o['construct']}\n   requires: {o['requires']}\n"
                          f"   found:    {o['found']}")
            return 0
        mod = importlib.import_module(f'sa.props.{prop.lower()}')
        prog = Program(repo=args.repo, include_examples=(args.tier == 'thorough'))
        cg = CallGraph(prog)
        ctx = report.Ctx(prog, cg, prop, args.tier)
        report.PROP_EXPLANATION[prop] = getattr(mod, 'EXPLANATION', '')
        mod.check(ctx)
        selftest = None
        if args.tier == 'thorough' and not args.no_selftest:
            from . import selftest as st
            selftest = st.run_for(prop, repo=prog.repo)
        return report.finish(ctx, t0, seed=seed, selftest=selftest)
    except AnalysisError as e:
        print(f'ANALYSIS-ERROR property={prop}: {e}')
        return 2
    except Exception:
        print(f'ANALYSIS-ERROR property={prop}: internal error')
        traceback.print_exc()
        return 2


if __name__ == '__main__':
    sys.exit(main())
