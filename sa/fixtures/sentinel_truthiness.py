# Positive control for rule A10c (never imported, only parsed): the empty intersection is conflated with
# "no restriction yet".
def running_intersection(sets):
    acc = None
    for s in sets:
        acc = (acc & s) if acc else s
    return acc


def running_intersection_ok(sets):
    acc = None
    for s in sets:
        acc = s if acc is None else (acc & s)
    return acc
