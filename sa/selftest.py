"""Self-validation of the checker (thorough tier): run the property's rules on scratch copies of the
package with one construct broken (must fire, naming the construct) or re-written in a behaviour-preserving
way (must stay silent).  A failed expectation means the *checker* is broken: AnalysisError (exit 2).

Variants are declared by the property modules as `VARIANTS = [V(...), ...]`.
"""
import ast
import importlib
import os
import shutil
import sys
import tempfile
import time
from concurrent.futures import ProcessPoolExecutor

from .model import AnalysisError, Program, REPO, PKG


class V:
    def __init__(self, name, path, edits, expect='fire', key=None, why='', transform=None):
        self.transform = transform      # whole-package behaviour-preserving rewrite (sa/transforms.py)
        self.name = name
        self.path = path                # file relative to the package root, e.g. 'graph/traversal.py'
        self.edits = edits              # list of (old, new) exact-once text replacements
        self.expect = expect            # 'fire' | 'silent'
        self.key = key                  # substring expected in the key of a violated obligation
        self.why = why


def _copy_pkg(repo, dst):
    src = os.path.join(repo, PKG)

    def ignore(d, names):
        return [n for n in names if n in ('__pycache__', 'tests') or n.endswith('.pyc')]
    shutil.copytree(src, os.path.join(dst, PKG), ignore=ignore)


def _run_variant(args):
    prop, idx, repo = args
    sys.setrecursionlimit(10000)
    mod = importlib.import_module(f'sa.props.{prop.lower()}')
    v = _variants(mod)[idx]
    from .callgraph import CallGraph
    from . import report
    tmp = tempfile.mkdtemp(prefix='sa_variant_')
    try:
        _copy_pkg(repo, tmp)
        if v.transform:
            from .transforms import apply_to_package
            apply_to_package(os.path.join(tmp, PKG), v.transform)
            try:
                prog = Program(repo=tmp)
                ctx = report.Ctx(prog, CallGraph(prog), prop, 'quick')
                mod.check(ctx)
            except AnalysisError as e:
                return (v.name, 'FALSE-ALARM', f'analysis error on a behaviour-preserving rewrite: {e}')
            known = {(k['rule'], k['construct']) for k in report.load_known() if k.get('status') == 'known'}
            bad = [o for o in ctx.obs if not o.ok and (o.rule, o.key) not in known]
            if bad:
                return (v.name, 'FALSE-ALARM', f'{bad[0].key}: {bad[0].detail[:120]}')
            return (v.name, 'ok', 'silent')
        path = os.path.join(tmp, PKG, v.path)
        with open(path, encoding='utf-8') as fp:
            src = fp.read()
        for old, new in v.edits:
            if src.count(old) != 1:
                return (v.name, 'skipped', f'edit anchor occurs {src.count(old)} times in {v.path}: {old[:50]!r}')
            src = src.replace(old, new)
        try:
            ast.parse(src)
        except SyntaxError as e:
            return (v.name, 'broken-variant', f'variant does not parse: {e}')
        with open(path, 'w', encoding='utf-8') as fp:
            fp.write(src)
        try:
            prog = Program(repo=tmp)
            ctx = report.Ctx(prog, CallGraph(prog), prop, 'quick')
            mod.check(ctx)
        except AnalysisError as e:
            return (v.name, 'analysis-error', str(e))
        known = {(k['rule'], k['construct']) for k in report.load_known() if k.get('status') == 'known'}
        bad = [o for o in ctx.obs if not o.ok and (o.rule, o.key) not in known]
        if v.expect == 'fire':
            if not bad:
                return (v.name, 'MISSED', 'no violation reported')
            if v.key and not any(v.key in o.key or v.key in o.detail for o in bad):
                return (v.name, 'WRONG-CONSTRUCT', f'violations do not name {v.key!r}: {[o.key for o in bad][:3]}')
            return (v.name, 'ok', f'fired: {bad[0].key}')
        else:
            if bad:
                return (v.name, 'FALSE-ALARM', f'{bad[0].key}: {bad[0].detail[:120]}')
            return (v.name, 'ok', 'silent')
    finally:
        shutil.rmtree(tmp, ignore_errors=True)


GLOBAL_VARIANTS = [V(f'whole-package:{t}', None, [], expect='silent', transform=t)
                   for t in ('unparse', 'rename', 'swapcmp', 'pad', 'ifnot', 'pos2kw', 'retvar', 'elseexit', 'msg')]


def _variants(mod):
    return list(getattr(mod, 'VARIANTS', [])) + GLOBAL_VARIANTS


def run_for(prop, repo=None, jobs=None):
    repo = repo or REPO
    mod = importlib.import_module(f'sa.props.{prop.lower()}')
    variants = _variants(mod)
    if not variants:
        return {'variants': 0, 'note': 'no self-test variants declared for this property'}
    t0 = time.time()
    jobs = jobs or min(16, os.cpu_count() or 4, len(variants))
    args = [(prop, i, repo) for i in range(len(variants))]
    if jobs > 1:
        with ProcessPoolExecutor(max_workers=jobs) as ex:
            results = list(ex.map(_run_variant, args))
    else:
        results = [_run_variant(a) for a in args]
    failed = [r for r in results if r[1] not in ('ok', 'skipped')]
    skipped = [r for r in results if r[1] == 'skipped']
    summary = {
        'variants': len(variants),
        'must_fire': sum(1 for v in variants if v.expect == 'fire'),
        'must_stay_silent': sum(1 for v in variants if v.expect == 'silent'),
        'passed': sum(1 for r in results if r[1] == 'ok'),
        'skipped': [f'{r[0]}: {r[2]}' for r in skipped],
        'wall_s': round(time.time() - t0, 2),
        'results': [f'{r[0]}: {r[1]} ({r[2][:100]})' for r in results],
    }
    print(f'[{prop}] self-test: {summary["passed"]}/{len(variants)} variants behave as expected '
          f'({summary["must_fire"]} must fire, {summary["must_stay_silent"]} must stay silent, '
          f'{len(skipped)} skipped) in {summary["wall_s"]}s')
    if failed:
        for r in failed:
            print(f'   SELFTEST-FAIL {r[0]}: {r[1]} - {r[2]}')
        raise AnalysisError(f'self-test failed for {len(failed)} variant(s): the checker does not behave as '
                            f'designed ({failed[0][0]}: {failed[0][1]})')
    if len(skipped) > len(variants) // 2:
        raise AnalysisError(f'{len(skipped)} of {len(variants)} self-test variants no longer apply to the source')
    return summary


if __name__ == '__main__':
    p = sys.argv[1].upper()
    try:
        s = run_for(p, jobs=int(sys.argv[2]) if len(sys.argv) > 2 else None)
        for r in s.get('results', []):
            print('  ', r)
    except AnalysisError as e:
        print('ANALYSIS-ERROR', e)
        sys.exit(2)
