"""Load-time normalisation of the analysed program.

Every module is brought into one canonical, *semantically equivalent* form before any rule looks at it, so that
the rules decide the same thing for the many spellings of one program:

N1  `not (a == b)` -> `a != b`, `not (a is None)` -> `a is not None`, `not (a in b)` -> `a not in b` (and the reverse
    directions); `not not x` in a test position is left alone.  Ordering comparisons are NOT negated (NaN).
N2  an if/else (also when the else part is an elif chain) or conditional expression whose test is a negation (`not C`, `a != b`, `a is not b`,
    `a not in b`) is turned into the positive test with the branches exchanged.
N3  a single-operator comparison with a constant-like left operand and a non-constant right operand is turned
    round (`0 == len(x)` -> `len(x) == 0`, `1 > n` -> `n < 1`, `EdgeType.DERIVES == t` -> `t == EdgeType.DERIVES`).
    Constant-like: literals, negated literals, ALL_CAPS names, attribute chains rooted in a CapitalisedName.
N4  `pass` statements are dropped from bodies that have other statements.
N6  canonical argument style for calls of the package's own functions: when the callee name is defined exactly once
    in the package (and is not the name of a common library method), arguments of parameters *without* default
    are written positionally and arguments of parameters *with* default as keywords, whatever the call site used
    (`iter_out_edges(graph, node=n, edge_type=T)` and `iter_out_edges(graph, n, T)` become
    `iter_out_edges(graph, n, edge_type=T)`).  Calls with */** arguments or arguments that do not fit the
    signature are left alone.
N5  alpha-renaming of locals towards the names of the committed reference (`tables/ref_locals.json`): the
    statements of a function are aligned with the reference statements of the same function by their skeleton
    (structure with local names blanked); for aligned statements the local names are paired positionally; the
    resulting renaming is applied only if it is a consistent injective renaming of locals that collides with no
    other name of the function.  It is a pure alpha-conversion - it never changes what the function computes, and
    when nothing aligns nothing is renamed - whose only purpose is that a renamed local does not look like a
    different program to clauses that speak about `include_mask` or `removed_nodes`.

Line numbers are preserved (nodes are rearranged, never re-created without location).
"""
import ast
import builtins
import difflib
import hashlib
import json
import os

_NEG = {ast.Eq: ast.NotEq, ast.NotEq: ast.Eq, ast.Is: ast.IsNot, ast.IsNot: ast.Is, ast.In: ast.NotIn,
        ast.NotIn: ast.In}
_FLIP = {ast.Eq: ast.Eq, ast.NotEq: ast.NotEq, ast.Lt: ast.Gt, ast.Gt: ast.Lt, ast.LtE: ast.GtE, ast.GtE: ast.LtE}


def _const_like(e):
    if isinstance(e, ast.Constant):
        return True
    if isinstance(e, ast.UnaryOp) and isinstance(e.op, (ast.USub, ast.UAdd)):
        return _const_like(e.operand)
    if isinstance(e, ast.Name):
        return e.id.isupper() and len(e.id) > 1
    if isinstance(e, ast.Attribute):
        b = e
        while isinstance(b, ast.Attribute):
            b = b.value
        return isinstance(b, ast.Name) and b.id[:1].isupper() and not b.id.isupper() or \
            (isinstance(b, ast.Name) and b.id.isupper() and len(b.id) > 1)
    return False


class _Norm(ast.NodeTransformer):
    def visit_UnaryOp(self, node):
        self.generic_visit(node)
        if isinstance(node.op, ast.Not) and isinstance(node.operand, ast.Compare) and len(node.operand.ops) == 1 \
                and type(node.operand.ops[0]) in _NEG:
            c = node.operand
            new = ast.Compare(left=c.left, ops=[_NEG[type(c.ops[0])]()], comparators=c.comparators)
            return ast.copy_location(new, node)
        return node

    def visit_Compare(self, node):
        self.generic_visit(node)
        if len(node.ops) == 1 and type(node.ops[0]) in _FLIP and _const_like(node.left) and \
                not _const_like(node.comparators[0]):
            new = ast.Compare(left=node.comparators[0], ops=[_FLIP[type(node.ops[0])]()], comparators=[node.left])
            return ast.copy_location(new, node)
        return node

    @staticmethod
    def _positive(test):
        """The test with positive polarity if it is a negation (`not C`, `a != b`, `a is not b`, `a not in b`),
        else None."""
        if isinstance(test, ast.UnaryOp) and isinstance(test.op, ast.Not):
            return test.operand
        if isinstance(test, ast.Compare) and len(test.ops) == 1 and \
                isinstance(test.ops[0], (ast.NotEq, ast.IsNot, ast.NotIn)):
            return ast.copy_location(ast.Compare(left=test.left, ops=[_NEG[type(test.ops[0])]()],
                                                 comparators=test.comparators), test)
        return None

    def visit_If(self, node):
        self.generic_visit(node)
        if node.orelse:
            pos = self._positive(node.test)
            if pos is not None:
                node.test, node.body, node.orelse = pos, node.orelse, node.body
        return node

    def visit_IfExp(self, node):
        self.generic_visit(node)
        pos = self._positive(node.test)
        if pos is not None:
            node.test, node.body, node.orelse = pos, node.orelse, node.body
        return node

    def _body(self, body):
        if len(body) > 1:
            kept = [s for s in body if not isinstance(s, ast.Pass)]
            return kept or body[:1]
        return body

    def generic_visit(self, node):
        node = super().generic_visit(node)
        for f in ('body', 'orelse', 'finalbody'):
            b = getattr(node, f, None)
            if isinstance(b, list) and b and isinstance(b[0], ast.stmt):
                setattr(node, f, self._body(b))
        return node



# --------------------------------------------------------------------------------------------- N7 / N8 block shape
def _terminates(body):
    return bool(body) and isinstance(body[-1], (ast.Return, ast.Raise, ast.Continue, ast.Break))


class _Blocks(ast.NodeTransformer):
    """N7: `t = E` immediately followed by `return t`, t used nowhere else in the function -> `return E`.
    N8: `if c: ...<exit>  else: rest` -> `if c: ...<exit>` followed by rest (guard-clause form); when only the else
    part ends in an exit, the test is negated first."""

    def __init__(self):
        self.uses = None

    def visit_FunctionDef(self, node):
        outer = self.uses
        # names that are only ever assigned and then returned by the very next statement: inlining is exact
        loads, stores, pairs = {}, {}, {}
        for n in ast.walk(node):
            if isinstance(n, ast.Name):
                d = loads if isinstance(n.ctx, ast.Load) else stores
                d[n.id] = d.get(n.id, 0) + 1
            for f in ('body', 'orelse', 'finalbody'):
                b = getattr(n, f, None)
                if isinstance(b, list) and b and isinstance(b[0], ast.stmt):
                    for a, r in zip(b, b[1:]):
                        if isinstance(a, ast.Assign) and len(a.targets) == 1 and isinstance(a.targets[0], ast.Name) and \
                                isinstance(r, ast.Return) and isinstance(r.value, ast.Name) and \
                                r.value.id == a.targets[0].id and \
                                not any(isinstance(x, ast.Name) and x.id == r.value.id for x in ast.walk(a.value)):
                            pairs[r.value.id] = pairs.get(r.value.id, 0) + 1
        self.uses = {nm: 2 for nm, k in pairs.items() if loads.get(nm, 0) == k and stores.get(nm, 0) == k}
        self.generic_visit(node)
        self.uses = outer
        return node
    visit_AsyncFunctionDef = visit_FunctionDef

    @staticmethod
    def _size(stmts):
        return sum(1 for st in stmts for x in ast.walk(st) if isinstance(x, ast.stmt))

    @staticmethod
    def _negate(test):
        if isinstance(test, ast.UnaryOp) and isinstance(test.op, ast.Not):
            return test.operand
        neg = ast.copy_location(ast.UnaryOp(op=ast.Not(), operand=test), test)
        return _Norm().visit(neg)

    @staticmethod
    def _is_negative(test):
        return (isinstance(test, ast.UnaryOp) and isinstance(test.op, ast.Not)) or \
            (isinstance(test, ast.Compare) and len(test.ops) == 1 and
             isinstance(test.ops[0], (ast.NotEq, ast.IsNot, ast.NotIn)))

    def _fix(self, body):
        out = []
        for idx, st in enumerate(body):
            # N7
            if isinstance(st, ast.Return) and isinstance(st.value, ast.Name) and out and self.uses is not None and \
                    isinstance(out[-1], ast.Assign) and len(out[-1].targets) == 1 and \
                    isinstance(out[-1].targets[0], ast.Name) and out[-1].targets[0].id == st.value.id and \
                    self.uses.get(st.value.id, 0) == 2:
                prev = out.pop()
                out.append(ast.copy_location(ast.Return(value=prev.value), prev))
                continue
            # N8: an `if` one of whose parts ends in an exit, together with what follows it in the block
            if isinstance(st, ast.If) and getattr(st, '_n8_done', False) and not st.orelse:
                out.append(st)
                out.extend(body[idx + 1:])
                return out
            if isinstance(st, ast.If) and (_terminates(st.body) or (st.orelse and _terminates(st.orelse))):
                st._n8_done = True
                if not _terminates(st.body):
                    st.test, st.body, st.orelse = self._negate(st.test), st.orelse, st.body
                a = st.body
                rest = self._fix(list(st.orelse) + list(body[idx + 1:])) if not _terminates(st.orelse) or True else []
                if st.orelse and _terminates(st.orelse):
                    rest = self._fix(list(st.orelse))        # what followed the if/else was unreachable
                st.orelse = []
                # canonical guard: when the rest exits as well, the smaller part is the guard; ties go to the
                # positive test
                if _terminates(rest):
                    sa, sr = self._size(a), self._size(rest)
                    if sr < sa or (sr == sa and self._is_negative(st.test)):
                        st.test, st.body, rest = self._negate(st.test), rest, a
                out.append(st)
                out.extend(rest)
                return out
            out.append(st)
        return out

    def generic_visit(self, node):
        node = super().generic_visit(node)
        if isinstance(node, ast.Lambda):
            return node
        for f in ('body', 'orelse', 'finalbody'):
            b = getattr(node, f, None)
            if isinstance(b, list) and b and isinstance(b[0], ast.stmt):
                setattr(node, f, self._fix(b))
        return node


def normalize_expr_tree(tree):
    """N1-N4 on any AST (modules of the program, and the fragments the rules are written in)."""
    tree = _Blocks().visit(tree)        # guard-clause form first: what is left with an else has no exiting branch
    tree = _Norm().visit(tree)
    return tree


# --------------------------------------------------------------------------------------------- N5 alpha-renaming
_BUILTINS = set(dir(builtins))
_SCOPES = (ast.FunctionDef, ast.AsyncFunctionDef, ast.Lambda, ast.ClassDef)


def _own_nodes(fn_node):
    """Nodes of the function's own scope (comprehensions included, nested defs / lambdas / classes excluded,
    but the nested def statement node itself is yielded)."""
    stack = list(fn_node.body) if not isinstance(fn_node, ast.Lambda) else [fn_node.body]
    while stack:
        n = stack.pop()
        yield n
        if isinstance(n, _SCOPES):
            # decorators / defaults belong to the enclosing scope
            for d in getattr(n, 'decorator_list', []):
                stack.append(d)
            continue
        stack.extend(ast.iter_child_nodes(n))


def _params(fn_node):
    a = fn_node.args
    out = {x.arg for x in a.args + a.kwonlyargs + a.posonlyargs}
    if a.vararg:
        out.add(a.vararg.arg)
    if a.kwarg:
        out.add(a.kwarg.arg)
    return out


def function_locals(fn_node):
    """Names bound by the function's own statements (assignment, loop, with, comprehension, walrus), minus
    parameters, declared global/nonlocal names, names of nested defs/classes, imports and handler names."""
    bound, excluded = set(), set(_params(fn_node))
    for n in _own_nodes(fn_node):
        if isinstance(n, ast.Name) and isinstance(n.ctx, (ast.Store, ast.Del)):
            bound.add(n.id)
        elif isinstance(n, (ast.Global, ast.Nonlocal)):
            excluded.update(n.names)
        elif isinstance(n, (ast.FunctionDef, ast.AsyncFunctionDef, ast.ClassDef)):
            excluded.add(n.name)
        elif isinstance(n, (ast.Import, ast.ImportFrom)):
            for al in n.names:
                excluded.add((al.asname or al.name).split('.')[0])
        elif isinstance(n, ast.ExceptHandler) and n.name:
            excluded.add(n.name)
    return {b for b in bound if b not in excluded and not (b.startswith('__') and b.endswith('__'))}


def _nested_scopes(fn_node):
    for n in _own_nodes(fn_node):
        if isinstance(n, _SCOPES):
            yield n


def _rebinds(scope_node, name):
    """Does a nested scope (or one nested in it) bind `name` itself (parameter, local store, nonlocal excluded)?"""
    if isinstance(scope_node, ast.ClassDef):
        for n in ast.walk(scope_node):
            if isinstance(n, ast.Name) and n.id == name and isinstance(n.ctx, ast.Store):
                return True
        return False
    if name in _params(scope_node):
        return True
    nonlocal_names = set()
    stores = False
    for n in _own_nodes(scope_node):
        if isinstance(n, ast.Nonlocal):
            nonlocal_names.update(n.names)
        if isinstance(n, ast.Name) and n.id == name and isinstance(n.ctx, (ast.Store, ast.Del)):
            stores = True
    if stores and name not in nonlocal_names:
        return True
    return any(_rebinds(s, name) for s in _nested_scopes(scope_node))


def _stmt_header(st):
    """The statement without the bodies of compound statements (those are statements of their own)."""
    if isinstance(st, (ast.If, ast.While)):
        return [st.test]
    if isinstance(st, (ast.For, ast.AsyncFor)):
        return [st.target, st.iter]
    if isinstance(st, (ast.With, ast.AsyncWith)):
        return list(st.items)
    if isinstance(st, ast.Try):
        return []
    if isinstance(st, _SCOPES):
        return []
    if isinstance(st, ast.ExceptHandler):
        return [st.type] if st.type is not None else []
    return [st]


def _own_statements(fn_node):
    out = []

    def rec(body):
        for st in body:
            out.append(st)
            if isinstance(st, _SCOPES):
                continue
            for f in ('body', 'orelse', 'finalbody'):
                b = getattr(st, f, None)
                if isinstance(b, list) and b and isinstance(b[0], ast.stmt):
                    rec(b)
            for h in getattr(st, 'handlers', []):
                out.append(h)
                rec(h.body)
    if not isinstance(fn_node, ast.Lambda):
        rec(fn_node.body)
    return out


def _skeleton(st, locals_):
    """(digest of the structure with local names blanked, local names in order of occurrence)."""
    names = []
    parts = [type(st).__name__]

    def dump(n):
        if isinstance(n, ast.Name):
            if n.id in locals_:
                names.append(n.id)
                return 'L'
            return f'N:{n.id}'
        if isinstance(n, ast.AST):
            if isinstance(n, _SCOPES):
                return type(n).__name__
            fields = []
            for f, v in ast.iter_fields(n):
                if f in ('ctx', 'type_comment', 'kind'):
                    continue
                fields.append(f'{f}={dump(v)}')
            return f'{type(n).__name__}({",".join(fields)})'
        if isinstance(n, list):
            return '[' + ','.join(dump(x) for x in n) + ']'
        return repr(n)
    for h in _stmt_header(st):
        parts.append(dump(h))
    return hashlib.sha1('|'.join(parts).encode()).hexdigest()[:12], names


def function_signature(fn_node):
    """Reference record of one function: list of [skeleton digest, local names in order]."""
    loc = function_locals(fn_node)
    return [list(_skeleton(st, loc)) for st in _own_statements(fn_node)]


def alpha_mapping(fn_node, ref_sig):
    """Renaming current local -> reference local (possibly empty), see N5."""
    loc = function_locals(fn_node)
    if not loc or not ref_sig:
        return {}
    cur = [_skeleton(st, loc) for st in _own_statements(fn_node)]
    a = [s[0] for s in ref_sig]
    b = [s[0] for s in cur]
    votes = {}
    sm = difflib.SequenceMatcher(a=a, b=b, autojunk=False)
    for blk in sm.get_matching_blocks():
        for k in range(blk.size):
            rn, cn = ref_sig[blk.a + k][1], cur[blk.b + k][1]
            if len(rn) != len(cn):
                continue
            for r, c in zip(rn, cn):
                votes.setdefault(c, {}).setdefault(r, 0)
                votes[c][r] += 1
    mapping = {}
    taken = {}
    for c, vs in sorted(votes.items()):
        r, nv = max(vs.items(), key=lambda kv: (kv[1], kv[0]))
        if sum(vs.values()) != nv:
            continue                      # inconsistent pairing for this name: leave it alone
        if r in taken:
            # two current names want the same reference name: keep the better supported one
            other = taken[r]
            if votes[other][r] >= nv:
                continue
            del mapping[other]
        mapping[c] = r
        taken[r] = c
    mapping = {c: r for c, r in mapping.items() if c != r}
    if not mapping:
        return {}
    # the result must be an injective renaming that collides with nothing else in the function
    all_names = {n.id for n in ast.walk(fn_node) if isinstance(n, ast.Name)} | _params(fn_node)
    changed = True
    while changed:
        changed = False
        staying = all_names - set(mapping)
        for c, r in list(mapping.items()):
            if r in staying or r in _BUILTINS:
                del mapping[c]
                changed = True
    # names re-bound in a nested scope are left alone (shadowing)
    for c in list(mapping):
        if any(_rebinds(s, c) or _rebinds(s, mapping[c]) for s in _nested_scopes(fn_node)):
            del mapping[c]
    return mapping


def _apply(fn_node, mapping):
    for n in ast.walk(fn_node):
        if isinstance(n, ast.Name) and n.id in mapping:
            n.id = mapping[n.id]
        elif isinstance(n, (ast.Global, ast.Nonlocal)):
            n.names = [mapping.get(x, x) for x in n.names]


def iter_functions(tree):
    """(qualname, node) of every def in the module, outermost first."""
    out = []

    def rec(body, prefix):
        for st in body:
            if isinstance(st, (ast.FunctionDef, ast.AsyncFunctionDef)):
                q = f'{prefix}{st.name}'
                out.append((q, st))
                rec_inner(st, q + '.')
            elif isinstance(st, ast.ClassDef):
                rec(st.body, f'{prefix}{st.name}.')
            else:
                for f in ('body', 'orelse', 'finalbody'):
                    b = getattr(st, f, None)
                    if isinstance(b, list) and b and isinstance(b[0], ast.stmt):
                        rec(b, prefix)
                for h in getattr(st, 'handlers', []):
                    rec(h.body, prefix)

    def rec_inner(fn, prefix):
        for st in _own_statements(fn):
            if isinstance(st, (ast.FunctionDef, ast.AsyncFunctionDef)):
                q = f'{prefix}{st.name}'
                out.append((q, st))
                rec_inner(st, q + '.')
            elif isinstance(st, ast.ClassDef):
                rec(st.body, f'{prefix}{st.name}.')
    rec(tree.body, '')
    return out


_REF = None
REF_FILE = os.path.join(os.path.dirname(os.path.abspath(__file__)), 'tables', 'ref_locals.json')


def reference():
    global _REF
    if _REF is None:
        try:
            with open(REF_FILE) as fp:
                _REF = json.load(fp)
        except OSError:
            _REF = {}
    return _REF


_LIB_NAMES = set(dir(dict)) | set(dir(list)) | set(dir(set)) | set(dir(str)) | set(dir(tuple)) | _BUILTINS | {
    'add', 'all', 'any', 'append', 'array', 'astype', 'choice', 'copy', 'cumsum', 'deepcopy', 'dump', 'dumps', 'edges',
    'fill', 'flatten', 'get', 'in_edges', 'isin', 'items', 'join', 'keys', 'load', 'loads', 'max', 'mean', 'min',
    'nodes', 'ones', 'out_edges', 'predecessors', 'prod', 'product', 'randint', 'random', 'remove_node', 'reshape',
    'shape', 'sort', 'sorted', 'successors', 'sum', 'tolist', 'unique', 'values', 'where', 'zeros', 'run', 'submit',
    'result', 'encode', 'decode', 'validate', 'initialize', 'evaluate', 'resolve', 'render', 'export', 'name', 'info',
    'debug', 'warning', 'error', 'exists', 'write', 'read', 'open', 'close', 'step', 'reset', 'next', 'prev'}


def build_signature_index(trees):
    """callee name -> (required parameter names, optional parameter names, is_method) for names defined exactly
    once in the package."""
    defs = {}
    for t in trees:
        for n in ast.walk(t):
            if isinstance(n, (ast.FunctionDef, ast.AsyncFunctionDef)):
                defs.setdefault(n.name, []).append(n)
    # is the def a method (directly in a class body)?
    methods = set()
    for t in trees:
        for c in ast.walk(t):
            if isinstance(c, ast.ClassDef):
                for st in c.body:
                    if isinstance(st, (ast.FunctionDef, ast.AsyncFunctionDef)):
                        methods.add(id(st))
    out = {}
    for name, ds in defs.items():
        if len(ds) != 1 or name in _LIB_NAMES or (name.startswith('__') and name.endswith('__')):
            continue
        d = ds[0]
        a = d.args
        if a.vararg or a.posonlyargs:
            continue
        decos = {ast.unparse(x).split('(')[0].split('.')[-1] for x in d.decorator_list}
        if decos - {'staticmethod', 'classmethod', 'cached_function', 'catch_memory_overflow'}:
            continue        # property-like or wrapping decorators change the calling convention
        params = [x.arg for x in a.args]
        is_method = id(d) in methods and 'staticmethod' not in decos
        if is_method:
            if not params:
                continue
            params = params[1:]
        n_req = len(params) - len(a.defaults)
        if n_req < 0:
            continue
        out[name] = (params[:n_req], params[n_req:], is_method, [x.arg for x in a.kwonlyargs], a.kwarg is not None)
    return out


class _CallStyle(ast.NodeTransformer):
    def __init__(self, sigs):
        self.sigs = sigs

    def visit_Call(self, node):
        self.generic_visit(node)
        f = node.func
        name = f.attr if isinstance(f, ast.Attribute) else (f.id if isinstance(f, ast.Name) else None)
        sig = self.sigs.get(name)
        if sig is None:
            return node
        req, opt, is_method, kwonly, has_kwarg = sig
        extras = []
        if is_method and not isinstance(f, ast.Attribute):
            return node             # a method called unbound (explicit self): leave it
        if any(isinstance(x, ast.Starred) for x in node.args) or any(k.arg is None for k in node.keywords):
            return node
        params = req + opt
        if len(node.args) > len(params):
            return node
        bound = {}
        for p_, v in zip(params, node.args):
            bound[p_] = v
        for k in node.keywords:
            if k.arg in bound:
                return node
            if k.arg not in params and k.arg not in kwonly:
                if not has_kwarg:
                    return node     # does not fit the signature: not the callee we think it is
                extras.append(k)
                continue
            bound[k.arg] = k.value
        if any(r not in bound for r in req):
            return node
        node.args = [bound[r] for r in req]
        node.keywords = [ast.keyword(arg=o, value=bound[o]) for o in opt if o in bound] + \
            [ast.keyword(arg=o, value=bound[o]) for o in kwonly if o in bound] + extras
        return node


def normalize_module(tree, module_name, renamed=None, sigs=None):
    tree = normalize_expr_tree(tree)
    if sigs:
        tree = _CallStyle(sigs).visit(tree)
    ref = reference().get(module_name)
    if ref:
        # outermost functions first: a renaming of an outer local reaches the closures that use it
        for q, fn in iter_functions(tree):
            sig = ref.get(q)
            if not sig:
                continue
            m = alpha_mapping(fn, sig)
            if m:
                _apply(fn, m)
                if renamed is not None:
                    renamed[f'{module_name}:{q}'] = m
    ast.fix_missing_locations(tree)
    return tree
