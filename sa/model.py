"""E1/E2 - program model: modules, symbol tables, classes (MRO, overrides), functions (incl. nested).

Pure `ast`; never imports the analysed package.  Everything is re-read from the working tree of the
repository on every run.
"""
import ast
import os
import hashlib


class AnalysisError(Exception):
    """The analysis itself cannot proceed (anchor vanished, unrecognised idiom, ...): exit code 2."""


REPO = os.environ.get('ADSG_REPO', '/repo')
PKG = 'adsg_core'


def norm(node):
    """Normalised source text of an AST node (stable under re-formatting and comments)."""
    if node is None:
        return ''
    if isinstance(node, str):
        return node
    try:
        return ast.unparse(node)
    except Exception:  # pragma: no cover
        return ast.dump(node)


class FunctionInfo:
    def __init__(self, module, node, name, qualname, cls, parent):
        self.module = module
        self.node = node
        self.name = name
        self.qualname = qualname
        self.cls = cls          # directly enclosing class (methods only)
        self.parent = parent    # enclosing function (nested functions / lambdas)
        self.nested = {}
        self.lambdas = []
        self.decorators = [norm(d) for d in getattr(node, 'decorator_list', [])]

    @property
    def key(self):
        return f'{self.module.name}:{self.qualname}'

    @property
    def owner_class(self):
        f = self
        while f is not None:
            if f.cls is not None:
                return f.cls
            f = f.parent
        return None

    @property
    def outermost(self):
        f = self
        while f.parent is not None:
            f = f.parent
        return f

    @property
    def is_static(self):
        return 'staticmethod' in self.decorators

    @property
    def is_classmethod(self):
        return 'classmethod' in self.decorators

    @property
    def is_property(self):
        return any(d in ('property', 'cached_property') or d.endswith('.cached_property') for d in self.decorators)

    @property
    def params(self):
        a = self.node.args
        names = [x.arg for x in a.posonlyargs + a.args]
        if a.vararg:
            names.append(a.vararg.arg)
        names += [x.arg for x in a.kwonlyargs]
        if a.kwarg:
            names.append(a.kwarg.arg)
        return names

    def param_annotation(self, name):
        a = self.node.args
        for x in a.posonlyargs + a.args + a.kwonlyargs + ([a.vararg] if a.vararg else []) + \
                ([a.kwarg] if a.kwarg else []):
            if x.arg == name:
                return x.annotation
        return None

    def param_default(self, name):
        a = self.node.args
        pos = a.posonlyargs + a.args
        defaults = [None] * (len(pos) - len(a.defaults)) + list(a.defaults)
        for x, d in zip(pos, defaults):
            if x.arg == name:
                return d
        for x, d in zip(a.kwonlyargs, a.kw_defaults):
            if x.arg == name:
                return d
        return None

    @property
    def body(self):
        if isinstance(self.node, ast.Lambda):
            return [ast.Return(value=self.node.body, lineno=self.node.lineno, col_offset=self.node.col_offset)]
        return self.node.body

    @property
    def lineno(self):
        return self.node.lineno

    @property
    def where(self):
        return f'{self.module.relpath}:{self.node.lineno}'

    def __repr__(self):
        return f'<fn {self.key}>'


class ClassInfo:
    def __init__(self, module, node, qualname):
        self.module = module
        self.node = node
        self.name = node.name
        self.qualname = qualname
        self.methods = {}
        self.class_attrs = {}      # name -> (value expr or None, annotation or None)
        self.bases = []            # resolved ClassInfo
        self.ext_bases = []        # unresolved base names (external)
        self.instance_attrs = {}   # name -> list of (value expr, annotation, FunctionInfo)
        self.decorators = [norm(d) for d in node.decorator_list]

    @property
    def key(self):
        return f'{self.module.name}:{self.qualname}'

    @property
    def where(self):
        return f'{self.module.relpath}:{self.node.lineno}'

    def __repr__(self):
        return f'<class {self.key}>'


class Module:
    def __init__(self, name, path, relpath, source, sigs=None):
        self.name = name
        self.path = path
        self.relpath = relpath
        self.source = source
        from .normalize import normalize_module
        self.renamed = {}        # function -> {current local: reference local} applied by the alpha-normalisation
        self.tree = normalize_module(ast.parse(source, filename=path), name, self.renamed, sigs)
        self.functions = {}
        self.classes = {}
        self.imports = {}        # local name -> ('module', modname) | ('attr', modname, attr)
        self.star_imports = []
        self.all = None
        self.assigns = {}        # top-level name -> value expr
        self.all_functions = []
        self.all_classes = []
        self.is_package = os.path.basename(path) == '__init__.py'

    def __repr__(self):
        return f'<module {self.name}>'


def _abs_import(mod, node):
    """Absolute module name of an ImportFrom."""
    if node.level == 0:
        return node.module
    parts = mod.name.split('.')
    if not mod.is_package:
        parts = parts[:-1]
    if node.level > 1:
        parts = parts[:-(node.level - 1)]
    if node.module:
        parts.append(node.module)
    return '.'.join(parts)


class Program:
    def __init__(self, repo=None, include_examples=False, include_tests=False):
        self.repo = repo or REPO
        self.modules = {}
        self.include_examples = include_examples
        self._mro = {}
        self._subs = None
        self._load(include_examples, include_tests)
        for m in self.modules.values():
            self._index_module(m)
        for m in self.modules.values():
            for c in m.all_classes:
                self._resolve_bases(c)
        self._func_index = {}
        self._class_index = {}
        for m in self.modules.values():
            for f in m.all_functions:
                self._func_index[f.key] = f
            for c in m.all_classes:
                self._class_index[c.key] = c
        self.classes_by_name = {}
        for c in self._class_index.values():
            self.classes_by_name.setdefault(c.name, []).append(c)
        self.methods_by_name = {}
        for c in self._class_index.values():
            for n, f in c.methods.items():
                self.methods_by_name.setdefault(n, []).append(f)

    # ------------------------------------------------------------------ loading
    def _load(self, include_examples, include_tests):
        root = os.path.join(self.repo, PKG)
        if not os.path.isdir(root):
            raise AnalysisError(f'package directory not found: {root}')
        pending = []
        for dirpath, dirnames, filenames in os.walk(root):
            dirnames[:] = sorted(d for d in dirnames if d != '__pycache__')
            rel = os.path.relpath(dirpath, self.repo)
            parts = rel.split(os.sep)
            if not include_tests and 'tests' in parts:
                continue
            if not include_examples and 'examples' in parts:
                continue
            for fn in sorted(filenames):
                if not fn.endswith('.py'):
                    continue
                path = os.path.join(dirpath, fn)
                modparts = list(parts)
                if fn != '__init__.py':
                    modparts.append(fn[:-3])
                name = '.'.join(modparts)
                with open(path, encoding='utf-8') as fp:
                    src = fp.read()
                pending.append((name, path, src))
        # the calling convention of the package's own functions (for the canonical argument style, N6) is read
        # from all modules before any of them is normalised
        from .normalize import build_signature_index
        try:
            sigs = build_signature_index([ast.parse(src, filename=path) for _, path, src in pending])
        except SyntaxError as e:
            raise AnalysisError(f'cannot parse: {e}')
        for name, path, src in pending:
            try:
                self.modules[name] = Module(name, path, os.path.relpath(path, self.repo), src, sigs)
            except SyntaxError as e:
                raise AnalysisError(f'cannot parse {path}: {e}')

    def digest(self):
        h = hashlib.sha256()
        for name in sorted(self.modules):
            h.update(name.encode())
            h.update(self.modules[name].source.encode())
        return h.hexdigest()[:16]

    # ------------------------------------------------------------------ indexing
    def _index_module(self, m):
        def visit_body(body, cls, parent_fn, prefix):
            for st in body:
                self._index_stmt(m, st, cls, parent_fn, prefix)

        for st in m.tree.body:
            if isinstance(st, ast.Import):
                for a in st.names:
                    local = a.asname or a.name.split('.')[0]
                    m.imports[local] = ('module', a.name if a.asname else a.name.split('.')[0])
            elif isinstance(st, ast.ImportFrom):
                modname = _abs_import(m, st)
                for a in st.names:
                    if a.name == '*':
                        m.star_imports.append(modname)
                    else:
                        m.imports[a.asname or a.name] = ('attr', modname, a.name)
            elif isinstance(st, ast.If) and norm(st.test) in ('False', 'TYPE_CHECKING', 'typing.TYPE_CHECKING'):
                for s2 in st.body:
                    if isinstance(s2, ast.ImportFrom):
                        modname = _abs_import(m, s2)
                        for a in s2.names:
                            if a.name == '*':
                                m.star_imports.append(modname)
                            else:
                                m.imports[a.asname or a.name] = ('attr', modname, a.name)
            elif isinstance(st, ast.Try):
                for s2 in st.body:
                    if isinstance(s2, ast.Import):
                        for a in s2.names:
                            m.imports[a.asname or a.name.split('.')[0]] = ('module', a.name)
            elif isinstance(st, ast.Assign):
                for t in st.targets:
                    if isinstance(t, ast.Name):
                        m.assigns[t.id] = st.value
                        if t.id == '__all__' and isinstance(st.value, (ast.List, ast.Tuple)):
                            m.all = [e.value for e in st.value.elts if isinstance(e, ast.Constant)]
            elif isinstance(st, ast.AnnAssign) and isinstance(st.target, ast.Name) and st.value is not None:
                m.assigns[st.target.id] = st.value
        visit_body(m.tree.body, None, None, '')

    def _index_stmt(self, m, st, cls, parent_fn, prefix):
        if isinstance(st, (ast.FunctionDef, ast.AsyncFunctionDef)):
            qual = prefix + st.name
            f = FunctionInfo(m, st, st.name, qual, cls if parent_fn is None else None, parent_fn)
            m.all_functions.append(f)
            if parent_fn is not None:
                parent_fn.nested[st.name] = f
            elif cls is not None:
                cls.methods[st.name] = f
            else:
                m.functions[st.name] = f
            self._index_function_body(m, f)
        elif isinstance(st, ast.ClassDef):
            qual = prefix + st.name
            c = ClassInfo(m, st, qual)
            m.all_classes.append(c)
            if cls is None and parent_fn is None:
                m.classes[st.name] = c
            for s2 in st.body:
                if isinstance(s2, ast.Assign):
                    for t in s2.targets:
                        if isinstance(t, ast.Name):
                            c.class_attrs[t.id] = (s2.value, None)
                elif isinstance(s2, ast.AnnAssign) and isinstance(s2.target, ast.Name):
                    c.class_attrs[s2.target.id] = (s2.value, s2.annotation)
                self._index_stmt(m, s2, c, None, qual + '.')
        elif isinstance(st, (ast.If, ast.Try, ast.With, ast.For, ast.While)):
            # definitions under module-level control flow
            for field in ('body', 'orelse', 'finalbody'):
                for s2 in getattr(st, field, []) or []:
                    self._index_stmt(m, s2, cls, parent_fn, prefix)
            for h in getattr(st, 'handlers', []) or []:
                for s2 in h.body:
                    self._index_stmt(m, s2, cls, parent_fn, prefix)

    def _index_function_body(self, m, f):
        """Find nested defs / lambdas and `self.x = ...` assignments."""
        owner = f.owner_class
        n_lambda = [0]

        def walk(node):
            for child in ast.iter_child_nodes(node):
                if isinstance(child, (ast.FunctionDef, ast.AsyncFunctionDef, ast.ClassDef)):
                    self._index_stmt(m, child, None, f, f.qualname + '.')
                    continue
                if isinstance(child, ast.Lambda):
                    n_lambda[0] += 1
                    lf = FunctionInfo(m, child, '<lambda>', f'{f.qualname}.<lambda{n_lambda[0]}>', None, f)
                    m.all_functions.append(lf)
                    f.lambdas.append(lf)
                    child._sa_fn = lf
                    # lambdas may contain lambdas
                    self._index_function_body(m, lf)
                    continue
                if owner is not None and isinstance(child, (ast.Assign, ast.AnnAssign, ast.AugAssign)):
                    targets = child.targets if isinstance(child, ast.Assign) else [child.target]
                    ann = child.annotation if isinstance(child, ast.AnnAssign) else None
                    for t in targets:
                        for tt in (t.elts if isinstance(t, (ast.Tuple, ast.List)) else [t]):
                            if isinstance(tt, ast.Attribute) and isinstance(tt.value, ast.Name) and \
                                    tt.value.id == 'self':
                                val = child.value if not isinstance(t, (ast.Tuple, ast.List)) else None
                                owner.instance_attrs.setdefault(tt.attr, []).append((val, ann, f))
                walk(child)

        if isinstance(f.node, ast.Lambda):
            walk(f.node)
        else:
            for st in f.node.body:
                if isinstance(st, (ast.FunctionDef, ast.AsyncFunctionDef, ast.ClassDef)):
                    self._index_stmt(m, st, None, f, f.qualname + '.')
                else:
                    # wrap to reuse walk on the statement itself
                    holder = ast.Module(body=[st], type_ignores=[])
                    walk(holder)
            for d in f.node.args.defaults + [d for d in f.node.args.kw_defaults if d is not None]:
                walk(ast.Expression(body=d))

    # ------------------------------------------------------------------ name resolution
    def exported(self, modname, name, _seen=None):
        """Resolve `name` as an attribute of module `modname`."""
        m = self.modules.get(modname)
        if m is None:
            return None
        return self.resolve(m, name, _seen)

    def resolve(self, m, name, _seen=None):
        """Resolve a global name in module m -> ClassInfo | FunctionInfo | Module | ('expr', module, node) | None"""
        _seen = _seen or set()
        if (m.name, name) in _seen:
            return None
        _seen.add((m.name, name))
        if name in m.classes:
            return m.classes[name]
        if name in m.functions:
            return m.functions[name]
        if name in m.assigns:
            v = m.assigns[name]
            # alias: X = Y ; TypeVar('X', bound=Y)
            if isinstance(v, ast.Name):
                r = self.resolve(m, v.id, _seen)
                if r is not None:
                    return r
            if isinstance(v, ast.Call) and norm(v.func) in ('TypeVar', 'typing.TypeVar'):
                for kw in v.keywords:
                    if kw.arg == 'bound':
                        b = kw.value
                        if isinstance(b, ast.Constant) and isinstance(b.value, str):
                            return self.resolve(m, b.value, _seen)
                        if isinstance(b, ast.Name):
                            return self.resolve(m, b.id, _seen)
            return ('expr', m, v)
        if name in m.imports:
            imp = m.imports[name]
            if imp[0] == 'module':
                return self.modules.get(imp[1]) or ('extmodule', imp[1])
            sub = self.modules.get(f'{imp[1]}.{imp[2]}')
            r = self.exported(imp[1], imp[2], _seen)
            if r is not None:
                return r
            if sub is not None:
                return sub
            if imp[1].split('.')[0] != PKG:
                return ('ext', imp[1], imp[2])
            return None
        for modname in m.star_imports:
            sm = self.modules.get(modname)
            if sm is None:
                continue
            if sm.all is not None and name not in sm.all:
                continue
            if sm.all is None and name.startswith('_'):
                continue
            r = self.resolve(sm, name, _seen)
            if r is not None:
                return r
        return None

    def resolve_dotted(self, m, expr):
        """Resolve Name / dotted Attribute expression through modules."""
        if isinstance(expr, ast.Name):
            return self.resolve(m, expr.id)
        if isinstance(expr, ast.Attribute):
            base = self.resolve_dotted(m, expr.value)
            if isinstance(base, Module):
                r = self.resolve(base, expr.attr)
                if r is None:
                    r = self.modules.get(f'{base.name}.{expr.attr}')
                return r
            if isinstance(base, ClassInfo):
                meth = self.find_method(base, expr.attr)
                if meth is not None:
                    return meth
                return None
            if isinstance(base, tuple) and base[0] == 'extmodule':
                return ('ext', base[1], expr.attr)
        return None

    def _resolve_bases(self, c):
        for b in c.node.bases:
            r = self.resolve_dotted(c.module, b)
            if isinstance(r, ClassInfo):
                c.bases.append(r)
            else:
                c.ext_bases.append(norm(b))

    # ------------------------------------------------------------------ hierarchy
    def mro(self, c):
        if c in self._mro:
            return self._mro[c]
        # C3 linearisation
        def merge(seqs):
            res = []
            seqs = [list(s) for s in seqs if s]
            while seqs:
                for s in seqs:
                    head = s[0]
                    if not any(head in t[1:] for t in seqs):
                        break
                else:
                    # inconsistent hierarchy: fall back to DFS order
                    head = seqs[0][0]
                res.append(head)
                seqs = [[x for x in s if x is not head] for s in seqs]
                seqs = [s for s in seqs if s]
            return res
        out = [c] + merge([self.mro(b) for b in c.bases] + [list(c.bases)])
        self._mro[c] = out
        return out

    def is_subclass(self, c, base):
        return base in self.mro(c)

    def subclasses(self, c, strict=True):
        if self._subs is None:
            self._subs = {}
            for k in self._class_index.values():
                for b in self.mro(k)[1:]:
                    self._subs.setdefault(b, []).append(k)
        res = list(self._subs.get(c, []))
        return res if strict else [c] + res

    def find_method(self, c, name):
        for k in self.mro(c):
            if name in k.methods:
                return k.methods[name]
        return None

    def find_class_attr(self, c, name):
        for k in self.mro(c):
            if name in k.class_attrs:
                return k, k.class_attrs[name]
        return None

    def dispatch_targets(self, c, name):
        """Possible targets of `obj.name(...)` where obj is statically of class c (or a subclass)."""
        out = []
        m = self.find_method(c, name)
        if m is not None:
            out.append(m)
        for s in self.subclasses(c):
            if name in s.methods and s.methods[name] not in out:
                out.append(s.methods[name])
        return out

    def ext_base_names(self, c):
        names = []
        for k in self.mro(c):
            names += k.ext_bases
        return names

    # ------------------------------------------------------------------ lookup with anchors
    def func(self, key):
        """Anchor lookup: 'pkg.mod:Class.method' ; raises AnalysisError when the anchor vanished."""
        f = self._func_index.get(key)
        if f is None:
            raise AnalysisError(f'anchor function not found: {key}')
        return f

    def func_opt(self, key):
        return self._func_index.get(key)

    def cls(self, key):
        c = self._class_index.get(key)
        if c is None:
            raise AnalysisError(f'anchor class not found: {key}')
        return c

    def cls_opt(self, key):
        return self._class_index.get(key)

    def all_functions(self):
        return list(self._func_index.values())

    def all_classes(self):
        return list(self._class_index.values())

    def enum_members(self, c):
        """Names of members of an Enum class (class-level assignments of non-dunder, non-callable names)."""
        out = []
        for st in c.node.body:
            if isinstance(st, ast.Assign):
                for t in st.targets:
                    if isinstance(t, ast.Name) and not t.id.startswith('_'):
                        out.append(t.id)
        return out


def walk_no_nested(node, include_lambda_bodies=False):
    """ast.walk that does not descend into nested function/class definitions (and lambdas)."""
    stack = [node]
    first = True
    while stack:
        n = stack.pop()
        if not first and isinstance(n, (ast.FunctionDef, ast.AsyncFunctionDef, ast.ClassDef)):
            continue
        if not first and isinstance(n, ast.Lambda) and not include_lambda_bodies:
            continue
        first = False
        yield n
        stack.extend(reversed(list(ast.iter_child_nodes(n))))


def stmts_of(fn):
    """All statements of a function body (recursively), excluding nested function/class bodies."""
    out = []

    def rec(body):
        for st in body:
            out.append(st)
            if isinstance(st, (ast.FunctionDef, ast.AsyncFunctionDef, ast.ClassDef)):
                continue
            for field in ('body', 'orelse', 'finalbody'):
                sub = getattr(st, field, None)
                if isinstance(sub, list):
                    rec(sub)
            for h in getattr(st, 'handlers', []) or []:
                rec(h.body)
            if isinstance(st, ast.Match):
                for c in st.cases:
                    rec(c.body)
    rec(fn.body)
    return out
