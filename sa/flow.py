"""E5/E6 - intra-procedural data flow on top of reaching definitions: backward slices (what a value is
computed from) and forward taint with sanitizers."""
import ast
from .model import norm, walk_no_nested
from .cfg import build_cfg, build_rd, node_defs, node_exprs, target_names, names_used


def def_value(node, name):
    """Expression(s) that define `name` at CFG node `node`: list of (expr, how) with how in
    'value' (name = expr), 'elem' (name iterates over / is unpacked from expr), 'aug', 'other'."""
    a = node.ast
    out = []
    if node.kind == 'stmt':
        if isinstance(a, ast.Assign):
            for t in a.targets:
                if isinstance(t, ast.Name) and t.id == name:
                    out.append((a.value, 'value'))
                elif name in target_names(t):
                    sub = _unpack(t, a.value, name)
                    out.append(sub)
        elif isinstance(a, ast.AnnAssign):
            if a.value is not None:
                out.append((a.value, 'value'))
        elif isinstance(a, ast.AugAssign):
            out.append((a.value, 'aug'))
            out.append((a.target, 'aug'))
        elif isinstance(a, (ast.FunctionDef, ast.AsyncFunctionDef, ast.ClassDef, ast.Import, ast.ImportFrom)):
            out.append((None, 'other'))
        for sub in walk_no_nested(a):
            if isinstance(sub, ast.NamedExpr) and isinstance(sub.target, ast.Name) and sub.target.id == name:
                out.append((sub.value, 'value'))
    elif node.kind == 'for':
        out.append(_unpack(a.target, a.iter, name, elem=True))
    elif node.kind == 'with':
        for it in a.items:
            if it.optional_vars is not None and name in target_names(it.optional_vars):
                out.append((it.context_expr, 'value'))
    elif node.kind == 'handler':
        out.append((a.type, 'other'))
    elif node.kind == 'test':
        for sub in walk_no_nested(a):
            if isinstance(sub, ast.NamedExpr) and isinstance(sub.target, ast.Name) and sub.target.id == name:
                out.append((sub.value, 'value'))
    elif node.kind == 'entry':
        out.append((None, 'param'))
    return out


def _unpack(target, value, name, elem=False):
    """Match tuple targets against tuple values where possible."""
    if isinstance(target, ast.Name):
        return (value, 'elem' if elem else 'value')
    if isinstance(target, (ast.Tuple, ast.List)):
        if not elem and isinstance(value, (ast.Tuple, ast.List)) and len(value.elts) == len(target.elts) and \
                not any(isinstance(e, ast.Starred) for e in list(target.elts) + list(value.elts)):
            for t, v in zip(target.elts, value.elts):
                if name in target_names(t):
                    return _unpack(t, v, name)
        # enumerate(x): first element is a counter
        if elem and isinstance(value, ast.Call) and isinstance(value.func, ast.Name) and \
                value.func.id == 'enumerate' and len(target.elts) == 2 and value.args:
            if name in target_names(target.elts[0]):
                return (ast.Constant(value=0), 'value')
            return _unpack(target.elts[1], value.args[0], name, elem=True)
        if elem and isinstance(value, ast.Call) and isinstance(value.func, ast.Name) and \
                value.func.id == 'zip' and len(target.elts) == len(value.args):
            for t, v in zip(target.elts, value.args):
                if name in target_names(t):
                    return _unpack(t, v, name, elem=True)
        pos = None
        for i, t in enumerate(target.elts):
            if name in target_names(t):
                pos = i
        return (value, f'unpack{pos}' if not elem else f'elem-unpack{pos}')
    return (value, 'other')


class Slice:
    """Backward data-dependence slice of a set of names at a CFG node (intra-procedural; closures see the
    enclosing function's definitions flow-insensitively)."""

    def __init__(self, fn):
        self.fn = fn
        self.cfg = build_cfg(fn)
        self.rd = build_rd(fn)

    def origins(self, expr, at_node, max_steps=400):
        """All (expr, how, node) definitions transitively feeding `expr` evaluated at `at_node`,
        plus ('param', name) leaves and free names."""
        out = []
        seen = set()
        work = [(n, at_node) for n in names_used(expr)]
        steps = 0
        while work and steps < max_steps:
            steps += 1
            name, node = work.pop()
            for d in self.rd.defs_of(name, node):
                if (name, d.id) in seen:
                    continue
                seen.add((name, d.id))
                for val, how in def_value(d, name):
                    out.append((name, val, how, d))
                    if val is not None:
                        for n2 in names_used(val):
                            work.append((n2, d))
            if not self.rd.defs_of(name, node):
                out.append((name, None, 'free', None))
        return out

    def depends_on(self, expr, at_node, pred):
        """True if `expr` at `at_node` is computed (transitively) from an expression satisfying pred."""
        if pred(expr):
            return True
        for sub in walk_no_nested(expr, include_lambda_bodies=True):
            if pred(sub):
                return True
        for name, val, how, d in self.origins(expr, at_node):
            if val is None:
                continue
            if pred(val):
                return True
            for sub in walk_no_nested(val, include_lambda_bodies=True):
                if pred(sub):
                    return True
        return False


def forward_taint(fn, sources, sanitizer=None, source_nodes=None, max_iter=50, tuple_summary=None,
                  call_summary=None):
    """Flow-sensitive forward taint over the CFG.

    sources: set of names tainted at entry (parameters).
    sanitizer(expr) -> bool: an expression whose value is clean whatever it is computed from (a call of a
    correcting function).  Assignments `x = e` taint x iff e mentions a tainted name outside sanitizer calls.
    Returns dict node id -> set of tainted names at node *entry*."""
    cfg = build_cfg(fn)
    IN = {n.id: set() for n in cfg.nodes}
    OUT = {n.id: set() for n in cfg.nodes}
    OUT[cfg.entry.id] = set(sources)

    def tainted_expr(e, tset):
        if e is None:
            return False
        if sanitizer is not None and sanitizer(e):
            return False
        if isinstance(e, ast.Name):
            return e.id in tset
        if isinstance(e, ast.Lambda):
            return False
        if call_summary is not None and isinstance(e, ast.Call):
            # a resolved private helper whose returned value does not depend on the tainted arguments is clean
            if call_summary(e, lambda a: tainted_expr(a, tset)) is False:
                return False
        return any(tainted_expr(c, tset) for c in ast.iter_child_nodes(e)
                   if isinstance(c, (ast.expr, ast.comprehension, ast.keyword)) or hasattr(c, 'value'))

    def transfer(n, tin):
        t = set(tin)
        a = n.ast
        if n.kind == 'stmt':
            if isinstance(a, ast.Assign):
                is_t = tainted_expr(a.value, tin)
                per_elem = None
                if is_t and tuple_summary is not None and isinstance(a.value, ast.Call) and \
                        len(a.targets) == 1 and isinstance(a.targets[0], (ast.Tuple, ast.List)):
                    per_elem = tuple_summary(a.value, lambda e: tainted_expr(e, tin), len(a.targets[0].elts))
                if per_elem is not None:
                    for el, et in zip(a.targets[0].elts, per_elem):
                        for nm in target_names(el):
                            if et:
                                t.add(nm)
                            else:
                                t.discard(nm)
                    return t
                for tg in a.targets:
                    for nm in target_names(tg):
                        if is_t:
                            t.add(nm)
                        else:
                            t.discard(nm)
                    # x[i] = tainted  -> x tainted (local containers only, not attributes of objects)
                    if isinstance(tg, ast.Subscript) and is_t:
                        base = tg
                        while isinstance(base, ast.Subscript):
                            base = base.value
                        if isinstance(base, ast.Name):
                            t.add(base.id)
            elif isinstance(a, ast.AnnAssign) and a.value is not None:
                for nm in target_names(a.target):
                    if tainted_expr(a.value, tin):
                        t.add(nm)
                    else:
                        t.discard(nm)
            elif isinstance(a, ast.AugAssign):
                if tainted_expr(a.value, tin):
                    base = a.target
                    while isinstance(base, (ast.Subscript, ast.Attribute)):
                        base = base.value
                    if isinstance(base, ast.Name):
                        t.add(base.id)
            elif isinstance(a, ast.Expr) and isinstance(a.value, ast.Call):
                c = a.value
                # x.append(tainted) / x.extend / x.add / x.update
                if isinstance(c.func, ast.Attribute) and c.func.attr in ('append', 'extend', 'add', 'update',
                                                                         'insert') and \
                        any(tainted_expr(arg, tin) for arg in c.args):
                    base = c.func.value
                    while isinstance(base, (ast.Subscript, ast.Attribute)):
                        base = base.value
                    if isinstance(base, ast.Name):
                        t.add(base.id)
        elif n.kind == 'for':
            is_t = tainted_expr(a.iter, tin)
            for nm in target_names(a.target):
                if is_t:
                    t.add(nm)
                else:
                    t.discard(nm)
        elif n.kind == 'with':
            for it in a.items:
                if it.optional_vars is not None:
                    for nm in target_names(it.optional_vars):
                        if tainted_expr(it.context_expr, tin):
                            t.add(nm)
        return t

    work = list(cfg.nodes)
    it = 0
    while work and it < max_iter * len(cfg.nodes):
        it += 1
        n = work.pop(0)
        if n is not cfg.entry:
            new_in = set()
            for p, _ in n.pred:
                new_in |= OUT[p.id]
            IN[n.id] = new_in
            new_out = transfer(n, new_in)
        else:
            new_out = set(sources)
        if new_out != OUT[n.id] or n is cfg.entry and it == 1:
            OUT[n.id] = new_out
            for s, _ in n.succ:
                if s not in work:
                    work.append(s)
    return IN, tainted_expr


def taint_by_flag(fn, sources, sanitizer, flag, values=(True, False)):
    """forward_taint under each assumed value of a boolean flag parameter: CFG edges that contradict the
    flag's current value are infeasible (the flag may be re-assigned constants inside the function).
    Returns {flagvalue: (IN, tainted_expr)} where IN maps node id -> tainted names (union over the flag
    states reaching the node)."""
    from .cfg import explore, INFEASIBLE, build_cfg, node_defs, implied_facts
    cfg = build_cfg(fn)
    out = {}
    for val in values:
        # feasible (node, flagstate) pairs
        def step(a, b, lab, st):
            if flag in node_defs(a):
                av = a.ast
                if a.kind == 'stmt' and isinstance(av, ast.Assign) and isinstance(av.value, ast.Constant) and \
                        isinstance(av.value.value, bool):
                    st = av.value.value
                else:
                    st = None
            if a.kind == 'test' and lab in ('T', 'F'):
                for atom, truth in implied_facts(a.ast, lab == 'T'):
                    if isinstance(atom, ast.Name) and atom.id == flag:
                        if st is not None and st != truth:
                            return INFEASIBLE
                        st = truth
            return st
        seen = explore(cfg, [(cfg.entry, val)], step)
        feasible_edges = set()
        # recompute feasible edges
        for (nid, st) in seen:
            n = cfg.nodes[nid]
            for m, lab in n.succ:
                ns = step(n, m, lab, st)
                if ns is not INFEASIBLE:
                    feasible_edges.add((nid, m.id, lab))
        out[val] = _forward_taint_restricted(fn, sources, sanitizer, feasible_edges)
    return out


def _forward_taint_restricted(fn, sources, sanitizer, feasible_edges):
    """forward_taint on the sub-graph of feasible edges."""
    cfg = build_cfg(fn)
    saved = {}
    for n in cfg.nodes:
        saved[n.id] = (list(n.succ), list(n.pred))
        n.succ = [(m, lab) for m, lab in n.succ if (n.id, m.id, lab) in feasible_edges]
    for n in cfg.nodes:
        n.pred = [(p, lab) for p, lab in saved[n.id][1] if (p.id, n.id, lab) in feasible_edges]
    try:
        return forward_taint(fn, sources, sanitizer=sanitizer)
    finally:
        for n in cfg.nodes:
            n.succ, n.pred = saved[n.id]
