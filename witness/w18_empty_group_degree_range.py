import sys, os, tempfile, itertools
os.environ['XDG_CACHE_HOME'] = tempfile.mkdtemp()
from adsg_core import *
from adsg_core.optimization.graph_processor import GraphProcessor

def build(t_deg, g_kwargs):
    dsg = BasicDSG()
    s, a, b = [NamedNode(n) for n in 'SAB']
    m1 = ConnectorNode('M1', deg_min=1, deg_max=None)   # member, unbounded
    m2 = ConnectorNode('M2', deg_list=[1])               # conditional member
    g = ConnectorDegreeGroupingNode('G')
    t = ConnectorNode('T', **t_deg)
    dsg.add_edges([(s, m1), (b, m2), (m1, g), (m2, g), (s, t)])
    dsg.add_selection_choice('C', s, [a, b])
    dsg.add_connection_choice('CC', [g], [t])
    return dsg.set_start_nodes({s})

for t_deg in (dict(deg_list=[1]), dict(deg_list=[1, 2]), dict(deg_min=0, deg_max=None)):
    try:
        gp = GraphProcessor(build(t_deg, {}))
        x_all, act = gp.get_all_discrete_x()
        print(t_deg, 'des vars', [str(d) for d in gp.des_vars], 'n valid', None if x_all is None else len(x_all))
        for x in itertools.product(*[range(d.n_opts) for d in gp.des_vars]):
            g_, xi, ia = gp.get_graph(list(x))
            print('   ', x, '->', xi, ia, 'feasible', g_.feasible, 'final', g_.final)
    except Exception as e:
        import traceback; print(t_deg, 'ERROR', type(e).__name__, e); traceback.print_exc(limit=3)
