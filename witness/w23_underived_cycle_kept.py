"""F23 witness: nodes in a derivation cycle that no start node derives survive set_start_nodes (documented: "Nodes that
cannot be derived from any of the starting nodes are removed from the graph"); a selection choice inside such a cycle
is never active, is left in every instance (C02: "nothing unreachable ... remains, and no choice node is left") and
makes every decode fail (C01)."""
import sys
from adsg_core.graph.adsg_basic import BasicDSG
from adsg_core.graph.adsg_nodes import NamedNode
from adsg_core.optimization.graph_processor import GraphProcessor

n = {k: NamedNode(k) for k in 'S A B P Q X Y U V'.split()}
dsg = BasicDSG()
dsg.add_edges([(n['S'], n['A'])])
dsg.add_selection_choice('C', n['A'], [n['P'], n['Q']])
# a derivation cycle X -> Y -> X that nothing derives, with a choice below it
dsg.add_edges([(n['X'], n['Y']), (n['Y'], n['X'])])
dsg.add_selection_choice('D', n['Y'], [n['U'], n['V']])
dsg = dsg.set_start_nodes({n['S']})
left = sorted(str(x) for x in dsg.graph.nodes if str(x) in ('[X]', '[Y]', '[U]', '[V]') or 'Sel: D' in str(x))
print('unreachable nodes left after set_start_nodes:', left)
bad = bool(left)
try:
    gp = GraphProcessor(dsg)
    for x in ([0], [1]):
        g, xi, act = gp.get_graph(x)
        print('decode', x, '->', xi, 'final', g.final, 'choice nodes left', g.choice_nodes)
        bad = bad or not g.final
except Exception as e:
    print('decode failed:', type(e).__name__, e)
    bad = True
sys.exit(1 if bad else 0)
