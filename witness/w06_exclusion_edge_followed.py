import numpy as np, traceback, itertools
from adsg_core.graph.adsg_basic import BasicDSG
from adsg_core.graph.adsg_nodes import *
from adsg_core.graph.adsg import *
from adsg_core.graph.graph_edges import EdgeType
from adsg_core.optimization.graph_processor import GraphProcessor
from adsg_core.optimization.hierarchy import SelChoiceEncoderType

def build():
    n=[NamedNode(f'N{i}', obj_id=f'N{i}') for i in range(10)]
    s0=ConnectorNode('S0', deg_list=[1], obj_id='S0'); s1=ConnectorNode('S1', deg_list=[1], obj_id='S1')
    t1=ConnectorNode('T1', deg_list=[0,1,2], obj_id='T1'); t2=ConnectorNode('T2', deg_list=[1], obj_id='T2')
    g=BasicDSG()
    g.add_edges([(n[0],n[1]),(n[0],n[2]),(n[0],s0),(n[0],t1)])
    g.add_selection_choice('C1', n[1], [n[3], n[4]])   # A=n3 -> S1
    g.add_edge(n[3], s1)
    g.add_selection_choice('C2', n[2], [n[5], n[6]])   # X=n5 -> T2
    g.add_edge(n[5], t2)
    g.add_connection_choice('CC', [s0,s1], [t1,t2], exclude=[(s1,t2)])
    g=g.set_start_nodes({n[0]})
    return g
g=build()
p=GraphProcessor(g)
print(p.des_vars)
x_all,_=p.get_all_discrete_x()
print(x_all)
for x in itertools.product(*[range(dv.n_opts) for dv in p.des_vars]):
    try:
        gi,xi,ia=p.get_graph(list(x))
        print(x, xi, ia, gi.feasible, sorted(str(nd) for nd in gi.graph.nodes if isinstance(nd, ConnectorNode)))
    except Exception as e:
        print(x,'ERR',type(e).__name__,e)
