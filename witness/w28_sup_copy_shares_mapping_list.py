"""w28: a copy of a partly mapped SupDSG shares the list of choice mappings with the original:
add_mapping on the copy also changes the original (persistent-value contract, C08; C20: each variant resolves to
its own mapping)."""
import sys
from adsg_core.graph.adsg_basic import BasicDSG
from adsg_core.graph.adsg_nodes import NamedNode
from adsg_core.graph.sup import *

n = [NamedNode(f'N{i}') for i in range(5)]
s = [SupNode(f'S{i}') for i in range(6)]
src = BasicDSG()
c_a = src.add_selection_choice('A', n[0], [n[1], n[2]])
c_b = src.add_selection_choice('B', n[0], [n[3], n[4]])
src = src.set_start_nodes({n[0]})

sup = SupDSG()
c_p = sup.add_selection_choice('P', s[0], [s[1], s[2]])
c_q = sup.add_selection_choice('Q', s[0], [s[3], s[4]])
sup = sup.set_start_nodes({s[0]}, initialize_choices=False)
sup.add_mapping(c_p, src, SupSelChoiceOptionMapping(c_a, {n[1]: s[1], n[2]: s[2]}))
n_before = len(sup.choice_mappings)
cp = sup.copy()
cp.add_mapping(c_q, src, SupSelChoiceOptionMapping(c_b, {n[3]: s[3], n[4]: s[4]}))
print('original mappings before/after adding to the copy:', n_before, len(sup.choice_mappings))
sys.exit(1 if len(sup.choice_mappings) != n_before else 0)
