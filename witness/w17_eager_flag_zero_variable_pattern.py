"""C07 witness (F17): a connection variable that is NOT flagged conditionally active is inactive in a valid design.
Connection choice S0(0..2) -> [T0(0..2, exists only with option B), T1(1)]: without T0 there is exactly one
connection matrix, so that existence pattern needs no design variable; EagerEncoder.get_design_variables skipped
such patterns when merging the conditionally-active flags."""
import sys, os, tempfile
os.environ['XDG_CACHE_HOME'] = tempfile.mkdtemp()
import numpy as np
from adsg_core import *
from adsg_core.optimization.graph_processor import GraphProcessor

dsg = BasicDSG()
s, a, b = [NamedNode(n) for n in 'SAB']
s0 = ConnectorNode('S0', deg_min=0, deg_max=2)
t0 = ConnectorNode('T0', deg_min=0, deg_max=2)
t1 = ConnectorNode('T1', deg_list=[1])
dsg.add_edges([(s, s0), (b, t0), (s, t1)])
dsg.add_selection_choice('C', s, [a, b])
dsg.add_connection_choice('CC', [s0], [t0, t1])
gp = GraphProcessor(dsg.set_start_nodes({s}))
mgr = list(gp._conn_choice_data_map.values())[0][0]
print('encoder:', type(mgr).__name__, mgr.encoder)
flags = gp.dv_is_conditionally_active
x_all, act_all = gp.get_all_discrete_x()
print([str(d) for d in gp.des_vars], 'conditionally active:', flags)
print(x_all, act_all, sep='\n')
bad = 0
for x, act in zip(x_all, act_all):
    _, x_imp, is_act = gp.get_graph(list(x))
    for i, f in enumerate(flags):
        if not f and not is_act[i]:
            print('valid design', list(x), ': variable', i, 'is inactive but not flagged conditionally active'); bad += 1
print('VIOLATED' if bad else 'HOLDS')
sys.exit(1 if bad else 0)
