# None-deref in FAST when everything is excluded / get_for_kept_edges constraint sharing
import numpy as np, itertools
from adsg_core.graph.adsg_basic import BasicDSG
from adsg_core.graph.adsg_nodes import *
from adsg_core.graph.adsg import *
from adsg_core.optimization.graph_processor import GraphProcessor
from adsg_core.optimization.hierarchy import SelChoiceEncoderType
n=[NamedNode(f'N{i}', obj_id=f'N{i}') for i in range(10)]
g=BasicDSG(); g.add_edges([(n[0],n[1])])
c1=g.add_selection_choice('C1', n[1], [n[2],n[3]]); c2=g.add_selection_choice('C2', n[0], [n[4],n[5]])
g=g.set_start_nodes({n[0]})
g2=g.get_for_kept_edges(set(g.graph.edges(keys=True, data=True)))
print('constraints before', len(g.get_choice_constraints()))
g2.constrain_choices(ChoiceConstraintType.LINKED, [c1,c2])
print('constraints on original after constraining derived graph:', len(g.get_choice_constraints()))
gc=g.copy(); 
# FAST: all excluded -> AttributeError?
p=GraphProcessor(g, encoder_type=SelChoiceEncoderType.FAST)
an=p._hierarchy_analyzer
excl={tuple(x) for x in itertools.product(range(2),range(2))}
try: an.get_graph([0,0], exclude=excl)
except Exception as e: print('all-excluded ->', type(e).__name__, e)
