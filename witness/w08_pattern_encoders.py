import numpy as np, itertools, traceback
from adsg_core.optimization.assign_enc.matrix import *
from adsg_core.optimization.assign_enc.encoder_registry import *
from adsg_core.optimization.assign_enc.assignment_manager import *
from adsg_core.optimization.assign_enc.lazy_encoding import LazyEncoder
from adsg_core.optimization.assign_enc.patterns.encoder import InvalidPatternEncoder
from adsg_core.optimization.assign_enc.selector import EncoderSelector
def try_settings(name, settings, facs=PATTERN_ENCODERS):
    for fac in facs:
        enc=fac(DEFAULT_LAZY_IMPUTER())
        try: am=LazyAssignmentManager(settings, enc)
        except InvalidPatternEncoder: continue
        except Exception as e: print(name, str(enc),'CTOR-CRASH',type(e).__name__,e); continue
        for ex in am.matrix_gen.iter_existence():
            for x in itertools.product(*[range(dv.n_opts) for dv in am.design_vars]):
                try:
                    xi,ia,m=am.get_matrix(list(x), existence=ex)
                    if not am.matrix_gen.validate_matrix(m, existence=ex) and am.matrix_gen.get_agg_matrix()[ex].shape[0]>0:
                        print(name,str(enc),'INVALID',x,ex,m.tolist())
                except Exception as e:
                    print(name,str(enc),'DECODE-CRASH',x,repr(ex),type(e).__name__,e); break
# Combining with conditional targets
s=MatrixGenSettings(src=[Node([1])], tgt=[Node([0,1]) for _ in range(3)],
   existence=NodeExistencePatterns([NodeExistence(), NodeExistence(tgt_exists=[True,True,False])]))
try_settings('comb-cond', s)
# Partitioning mixed 1 / 0..1 targets
s=MatrixGenSettings(src=[Node(min_conn=0) for _ in range(2)], tgt=[Node([1]), Node([0,1])])
try_settings('part-mixed', s)
s=MatrixGenSettings(src=[Node(min_conn=0) for _ in range(2)], tgt=[Node([0,1]), Node([1])])
try_settings('part-mixed2', s)
# Partitioning one source
s=MatrixGenSettings(src=[Node(min_conn=0)], tgt=[Node([1]), Node([1])])
try_settings('part-1src', s)
try:
    am=EncoderSelector(s).get_best_assignment_manager(cache=False); print('selector ok', am.encoder, am.design_vars)
except Exception as e: print('SELECTOR CRASH', type(e).__name__, e)
