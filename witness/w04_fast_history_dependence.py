import numpy as np, traceback, itertools
from adsg_core.graph.adsg_basic import BasicDSG
from adsg_core.graph.adsg_nodes import *
from adsg_core.graph.adsg import *
from adsg_core.optimization.graph_processor import GraphProcessor
from adsg_core.optimization.hierarchy import SelChoiceEncoderType

def build():
    n=[NamedNode(f'N{i}', obj_id=f'N{i}') for i in range(30)]
    g=BasicDSG()
    g.add_edges([(n[0],n[1])])
    c1=g.add_selection_choice('C1', n[1], [n[2],n[3]])
    g.add_edges([(n[2],n[4]),(n[2],n[5]),(n[2],n[15])])
    c2=g.add_selection_choice('C2', n[4], [n[6],n[7],n[8]])
    c3=g.add_selection_choice('C3', n[5], [n[9],n[10],n[11]])
    c5=g.add_selection_choice('C5', n[15], [n[16],n[17],n[18]])
    g=g.set_start_nodes({n[0]})
    g=g.constrain_choices(ChoiceConstraintType.UNORDERED_NOREPL, [c2,c3])
    return g
enc=SelChoiceEncoderType.FAST
p=GraphProcessor(build(), encoder_type=enc)
print(p.des_vars)
X=[0,2,0,0]; T=[0,2,0,2]
print('fresh T      ', GraphProcessor(build(), encoder_type=enc).get_graph(T)[1:])
print('X create=False', p.get_graph(X, create=False)[1:])
print('T after X    ', p.get_graph(T)[1:])
q=GraphProcessor(build(), encoder_type=enc)
print('X create=True ', q.get_graph(X)[1:])
print('T after X(cT)', q.get_graph(T)[1:])
