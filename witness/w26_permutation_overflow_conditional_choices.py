"""C13 witness (F25): "choices that are not active together are unconstrained" - a PERMUTATION constraint over three
conditionally active choices with two options each made the whole design space infeasible.
  S -> C0 [n12 | n13 | n14];  n14 -> n13 -> n12;  C1 under n12, C2 under n13, C3 under n14, two options each;
  PERMUTATION(C1, C2, C3).
C0=n12 activates C1 only (2 architectures), C0=n13 activates C1 and C2 (2 permutations), C0=n14 activates all three (no
permutation of three choices over two options: that branch is infeasible).  4 architectures are admitted; before the
repair every option of C1..C3 was removed up front ("more choices than options") and GraphProcessor raised
'There are no feasible graphs to begin with!' with both encoders."""
import sys, os, tempfile, itertools, logging
os.environ['XDG_CACHE_HOME'] = tempfile.mkdtemp()
logging.disable(logging.CRITICAL)
from adsg_core import *
from adsg_core.optimization.graph_processor import GraphProcessor, SelChoiceEncoderType
def build(n_choice=3, n_opt=2):
    n = [NamedNode(str(i)) for i in range(80)]
    d = BasicDSG(); choices = []
    d.add_edge(n[1], n[11])
    d.add_selection_choice('C0', n[11], n[12:12+n_choice])
    d.add_edges([(n[12+i+1], n[12+i]) for i in range(n_choice-1)])
    for i in range(n_choice):
        choices.append(d.add_selection_choice(f'C{i+1}', n[12+i], n[20+10*i:20+10*i+n_opt]))
    d = d.set_start_nodes({n[1]})
    return d.constrain_choices(ChoiceConstraintType.PERMUTATION, choices)
def inst(g): return tuple(sorted(str(x.name) for x in g.graph.nodes if isinstance(x, NamedNode)))
bad = 0
for enc in (SelChoiceEncoderType.COMPLETE, SelChoiceEncoderType.FAST):
    try:
        gp = GraphProcessor(build(), encoder_type=enc)
        got = set()
        for x in itertools.product(*[range(d.n_opts) for d in gp.des_vars]):
            g, xi, act = gp.get_graph(list(x))
            if not (g.feasible and g.final):
                print(enc.name, x, 'not a final feasible instance'); bad += 1
            got.add(inst(g))
        print(enc.name, len(got), 'architectures')
        if len(got) != 4:
            bad += 1
    except Exception as e:
        print(enc.name, type(e).__name__, e); bad += 1
print('VIOLATED' if bad else 'HOLDS'); sys.exit(1 if bad else 0)
