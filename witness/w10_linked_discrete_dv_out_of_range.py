import numpy as np, itertools
from adsg_core.graph.adsg_basic import BasicDSG
from adsg_core.graph.adsg_nodes import *
from adsg_core.graph.adsg import *
from adsg_core.optimization.graph_processor import GraphProcessor
n=[NamedNode(f'N{i}', obj_id=f'N{i}') for i in range(5)]
d1=DesignVariableNode('A', options=['a','b','c']); d2=DesignVariableNode('B', options=['x','y'])
g=BasicDSG(); g.add_edges([(n[0],d1),(n[0],d2)])
g=g.set_start_nodes({n[0]})
g=g.constrain_choices(ChoiceConstraintType.LINKED, [d1,d2])
g.set_des_var_value(d1, 2)
print('direct set:', g.des_var_values)
p=GraphProcessor(g)
print(p.des_vars)
gi,x,ia=p.get_graph([2])
print(x, ia, gi.des_var_values, 'B value in range?', gi.des_var_value(d2) < len(d2.options))
