import numpy as np
from adsg_core.optimization.assign_enc.matrix import *
from adsg_core.optimization.assign_enc.encoder_registry import *
from adsg_core.optimization.assign_enc.assignment_manager import *
from adsg_core.optimization.assign_enc.lazy_encoding import LazyEncoder
settings=MatrixGenSettings(src=[Node([1,2]),Node([0,1])], tgt=[Node([0,1]),Node([1,2], repeated_allowed=False)])
bad=0
for fac in EAGER_ENCODERS+EAGER_ENUM_ENCODERS:
    enc=fac(DEFAULT_EAGER_IMPUTER())
    try: am=LazyAssignmentManager(settings, enc) if isinstance(enc, LazyEncoder) else AssignmentManager(settings, enc, cache=False)
    except Exception as e: print('skip',enc,e); continue
    for ex,dvs in am.get_all_design_vectors().items():
        for dv in dvs:
            x=np.where(dv==-1,0,dv)
            xi,ia,m=am.get_matrix(list(x), existence=ex)
            if list(ia)!=list(dv!=-1):
                bad+=1
                if bad<4: print(str(enc),'dv',dv,'decode ia',ia)
print('bad',bad)
