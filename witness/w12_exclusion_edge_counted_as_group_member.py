import numpy as np, itertools
from adsg_core.graph.adsg_basic import BasicDSG
from adsg_core.graph.adsg_nodes import *
from adsg_core.graph.adsg import *
from adsg_core.optimization.graph_processor import GraphProcessor
def build(excl):
    n=[NamedNode(f'N{i}', obj_id=f'N{i}') for i in range(10)]
    s0=ConnectorNode('S0', deg_list=[1,2,3], repeated_allowed=True, obj_id='S0'); s1=ConnectorNode('S1', deg_list=[0,1], obj_id='S1')
    t1=ConnectorNode('T1', deg_list=[1], repeated_allowed=True, obj_id='T1'); t2=ConnectorNode('T2', deg_list=[0,1], repeated_allowed=True, obj_id='T2')
    tg=ConnectorDegreeGroupingNode('TG')
    g=BasicDSG()
    g.add_edges([(n[0],n[1]),(n[0],s0),(n[0],s1),(n[0],t1),(n[0],t2)])
    g.add_selection_choice('C1', n[1], [n[3], n[4]])
    g.add_connection_choice('CC', [s0,s1], [(tg,[t1,t2])], exclude=[(s1,tg)] if excl else None)
    g=g.set_start_nodes({n[0]})
    return g,tg
for excl in (False, True):
    g,tg=build(excl)
    p=GraphProcessor(g)
    x_all,_=p.get_all_discrete_x()
    print('excl',excl,p.des_vars,'n_valid',p.get_n_valid_designs())
    for x in x_all:
        gi,xi,ia=p.get_graph(list(x))
        ne=sum(1 for e in gi.graph.edges(data=True) if e[2].get('type').name=='CONNECTS')
        print('  ',x,xi,'feasible',gi.feasible,'n_conn_edges',ne)
