"""C14 witness (F20): with the FAST encoder an admitted architecture is unreachable when a LINKED constraint couples two
choices on different branches: the FAST analyzer gave the second choice no design variable (forced to follow the
first) although the first choice does not exist in every architecture."""
import sys, os, tempfile, itertools
os.environ['XDG_CACHE_HOME'] = tempfile.mkdtemp()
from adsg_core import *
from adsg_core.optimization.graph_processor import GraphProcessor, SelChoiceEncoderType
def build():
    dsg = BasicDSG()
    n = {k: NamedNode(k) for k in ['S', 'A', 'B', 'C', 'D', 'a1', 'a2', 'c1', 'c2']}
    dsg.add_selection_choice('P', n['S'], [n['A'], n['B']])
    dsg.add_selection_choice('Q', n['S'], [n['C'], n['D']])
    l1 = dsg.add_selection_choice('L1', n['A'], [n['a1'], n['a2']])
    l2 = dsg.add_selection_choice('L2', n['C'], [n['c1'], n['c2']])
    return dsg.set_start_nodes({n['S']}).constrain_choices(ChoiceConstraintType.LINKED, [l1, l2])
def archs(enc):
    gp = GraphProcessor(build(), encoder_type=enc)
    out = set()
    for x in itertools.product(*[range(d.n_opts) for d in gp.des_vars]):
        g, xi, act = gp.get_graph(list(x))
        assert g.final and g.feasible
        out.add(tuple(sorted(str(n) for n in g.graph.nodes)))
    return out
def brute(g):
    if g.final: return {tuple(sorted(str(n) for n in g.graph.nodes))} if g.feasible else set()
    out = set()
    ch = g.get_ordered_next_choice_nodes()[0]
    for opt in g.get_option_nodes(ch):
        out |= brute(g.get_for_apply_selection_choice(ch, opt))
    return out
bf, ac, af = brute(build()), archs(SelChoiceEncoderType.COMPLETE), archs(SelChoiceEncoderType.FAST)
print('admitted', len(bf), 'complete', len(ac), 'fast', len(af)); print('unreachable with FAST:', sorted(bf - af)); print('unreachable with COMPLETE:', sorted(bf - ac))
sys.exit(0 if bf == ac == af else 1)
