import sys, itertools
import numpy as np
from adsg_core.optimization.assign_enc.matrix import *
from adsg_core.optimization.assign_enc.encoding import *
from adsg_core.optimization.assign_enc.eager.encodings import *
from adsg_core.optimization.assign_enc.eager.imputation import *
import adsg_core.optimization.assign_enc.eager.imputation as imps

src = [Node([1, 2]), Node([0, 1])]
tgt = [Node([0, 1]), Node([0, 1]), Node([0, 1])]
pats = NodeExistencePatterns([NodeExistence(), NodeExistence(tgt_exists=[True, True, False]), NodeExistence(src_exists=[True, False], tgt_exists=[True, False, False])])
settings = MatrixGenSettings(src, tgt, existence=pats)
bad = 0
for imp_name in [n for n in dir(imps) if n.endswith('Imputer') and n != 'EagerImputer']:
    imp_cls = getattr(imps, imp_name)
    for enc_cls in (DirectMatrixEncoder, OneVarEncoder if 'OneVarEncoder' in globals() else DirectMatrixEncoder):
        try:
            enc = enc_cls(imp_cls())
            enc.matrix = AggregateAssignmentMatrixGenerator(settings).get_agg_matrix()
        except Exception as e:
            print(imp_name, enc_cls.__name__, 'SETUP ERROR', type(e).__name__, e); continue
        dvs = enc.design_vars
        n_err = 0; n_inv = 0; n_tot = 0
        for ex in pats.patterns:
            for xv in itertools.product(*[range(dv.n_opts) for dv in dvs]):
                n_tot += 1
                try:
                    x_imp, mat = enc.get_matrix(list(xv), existence=ex)
                    gen = AggregateAssignmentMatrixGenerator(settings)
                    if mat.size == 0 or mat[0, 0] == -1 or not gen.validate_matrix(mat, existence=ex):
                        n_inv += 1
                except Exception as e:
                    n_err += 1
                    if n_err == 1: print('   first error', imp_name, enc_cls.__name__, ex, xv, type(e).__name__, e)
        print(imp_name, enc_cls.__name__, 'dvs', [d.n_opts for d in dvs], f'errors {n_err}/{n_tot} invalid {n_inv}')
        bad += n_err
sys.exit(1 if bad else 0)
