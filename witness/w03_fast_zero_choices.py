import numpy as np, traceback
from adsg_core.graph.adsg_basic import BasicDSG
from adsg_core.graph.adsg_nodes import *
from adsg_core.graph.adsg import *
from adsg_core.optimization.graph_processor import GraphProcessor
from adsg_core.optimization.hierarchy import SelChoiceEncoderType

# E3 FAST zero sel choices
n=[NamedNode(f'N{i}', obj_id=f'N{i}') for i in range(10)]
g=BasicDSG(); g.add_edges([(n[0],n[1])]); g.add_edge(n[1], DesignVariableNode('DV', bounds=(0.,1.)))
g=g.set_start_nodes({n[0]})
for enc in (SelChoiceEncoderType.COMPLETE, SelChoiceEncoderType.FAST):
    try:
        p=GraphProcessor(g, encoder_type=enc)
        print(enc, p.des_vars, p.get_graph([.3])[1:])
    except Exception as e:
        print(enc, 'CRASH', type(e).__name__, e)

# E4 FAST history dependence: incompatibility makes some combos infeasible
def build():
    n=[NamedNode(f'N{i}', obj_id=f'N{i}') for i in range(12)]
    g=BasicDSG()
    g.add_edges([(n[0],n[1]),(n[0],n[2])])
    g.add_selection_choice('C1', n[1], [n[3],n[4],n[5]])
    g.add_selection_choice('C2', n[2], [n[6],n[7],n[8]])
    g.add_incompatibility_constraint([n[4], n[7]])
    g.add_incompatibility_constraint([n[4], n[6]])
    g=g.set_start_nodes({n[0]})
    return g
xs=[[a,b] for a in range(3) for b in range(3)]
fresh={tuple(x): GraphProcessor(build(), encoder_type=SelChoiceEncoderType.FAST).get_graph(x)[1:] for x in xs}
p=GraphProcessor(build(), encoder_type=SelChoiceEncoderType.FAST)
import itertools
for order in [xs, xs[::-1]]:
    p=GraphProcessor(build(), encoder_type=SelChoiceEncoderType.FAST)
    for x in order:
        r=p.get_graph(x)[1:]
        if r!=fresh[tuple(x)]: print('HISTORY DIFF', x, 'fresh', fresh[tuple(x)], 'got', r)
print('fresh', fresh)
