import os, numpy as np
from adsg_core import *
from adsg_core.graph.adsg_basic import BasicDSG
from adsg_core.graph.adsg_nodes import *
from adsg_core.optimization.graph_processor import GraphProcessor
from adsg_core.optimization.hierarchy import SelChoiceEncoderType

def build():
    n=[NamedNode(f'N{i}', obj_id=f'N{i}') for i in range(10)]
    g=BasicDSG()
    g.add_edges([(n[0],n[1])])
    g.add_selection_choice('C1', n[1], [n[2],n[3],n[4]])
    g.add_selection_choice('C2', n[2], [n[5],n[6]])
    g.add_edge(n[0], MetricNode('M1', direction=-1))
    g=g.set_start_nodes({n[0]})
    return g

# E1 fix/free leak
p=GraphProcessor(build())
fresh=GraphProcessor(build())
print('des_vars',p.des_vars)
xs=[[a,b] for a in range(3) for b in range(2)]
ref=[fresh.get_graph(x)[1:] for x in xs]
dv0=p.des_vars[0]
p.fix_des_var(dv0, 1)
print('fixed decode', p.get_graph([0])[1:])
p.free_des_var(dv0)
after=[p.get_graph(x)[1:] for x in xs]
for x,r,a in zip(xs,ref,after):
    print(x, r, a, 'DIFF' if r!=a else '')
# E2 aliasing
q=GraphProcessor(build())
g1,_,_=q.get_graph([1,0]); g2,_,_=q.get_graph([1,0])
print('same object:', g1 is g2)
m=g1.metric_nodes[0]
g1.set_metric_value(m, 42.)
g3,_,_=q.get_graph([1,0])
print('leak metric value:', g3.metric_value(m))
