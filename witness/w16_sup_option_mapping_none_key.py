import os, sys, tempfile
os.environ['XDG_CACHE_HOME'] = tempfile.mkdtemp()
from adsg_core.graph.adsg_basic import BasicDSG
from adsg_core.graph.adsg_nodes import NamedNode
from adsg_core.graph.sup.dsg import SupDSG, SupSelChoiceOptionMapping
from adsg_core.optimization.graph_processor import GraphProcessor
# source: start S -> choice C0 {A, B}; A -> choice C1 {X, Y}  (C1 conditionally active)
S, A, B, X, Y = [NamedNode(n) for n in 'SABXY']
src = BasicDSG()
c0 = src.add_selection_choice('C0', S, [A, B])
c1 = src.add_selection_choice('C1', A, [X, Y])
src = src.set_start_nodes({S})
# sup: start T -> choice D {P, Q, R}
T, P, Q, R = [NamedNode(n) for n in 'TPQR']
sup = SupDSG()
d = sup.add_selection_choice('D', T, [P, Q, R])
sup.add_mapping(d, src, SupSelChoiceOptionMapping(c1, {X: P, Y: Q, None: R}))
sup = sup.set_start_nodes({T})
gp = GraphProcessor(src)
x_all, _ = gp.get_all_discrete_x()
for x in x_all:
    inst, xi, _ = gp.get_graph(x)
    try:
        res = sup.resolve(inst)
        print(xi, 'resolved ->', sorted(str(n) for n in res.graph.nodes))
    except Exception as e:
        print(xi, 'CRASH', type(e).__name__, e)
