"""C07 witness (F21): with the FAST encoder a selection choice that is NOT flagged conditionally active is reported
inactive in a valid design: choice X is permanent, but selecting P=A removes one of its two options (incompatibility),
X is then taken automatically by the graph and the fast analyzer never recorded it."""
import sys, os, tempfile, itertools
os.environ['XDG_CACHE_HOME'] = tempfile.mkdtemp()
from adsg_core import *
from adsg_core.optimization.graph_processor import GraphProcessor, SelChoiceEncoderType
def build():
    dsg = BasicDSG()
    n = {k: NamedNode(k) for k in ['S', 'A', 'B', 'x1', 'x2']}
    dsg.add_selection_choice('P', n['S'], [n['A'], n['B']])
    dsg.add_selection_choice('X', n['S'], [n['x1'], n['x2']])
    dsg.add_incompatibility_constraint([n['A'], n['x2']])
    return dsg.set_start_nodes({n['S']})
bad = 0
ref = {}
for enc in (SelChoiceEncoderType.COMPLETE, SelChoiceEncoderType.FAST):
    gp = GraphProcessor(build(), encoder_type=enc)
    flags = gp.dv_is_conditionally_active
    for x in itertools.product(*[range(d.n_opts) for d in gp.des_vars]):
        for create in (True, False):
            g, xi, act = gp.get_graph(list(x), create=create)
            for i, (f, a) in enumerate(zip(flags, act)):
                if not f and not a:
                    print(enc.name, 'create' if create else 'no-create', x, '->', xi, act, ': variable', i, 'inactive but not conditionally active'); bad += 1
            if enc == SelChoiceEncoderType.COMPLETE: ref[(x, create)] = (list(xi), list(act))
            elif ref[(x, create)] != (list(xi), list(act)):
                print('FAST differs from COMPLETE for', x, ref[(x, create)], (xi, act)); bad += 1
print('VIOLATED' if bad else 'HOLDS'); sys.exit(1 if bad else 0)
