"""C20 witness (F26): a source selection choice with two originating nodes - B below the conditional node n2 (option of
choice A) and, by an extra edge, below the permanent node n0.  B is active in every source architecture; where A=X
(n2 absent) the selected option of B is wired to n0.  SupSelChoiceOptionMapping remembered only the first in-edge
(n2): a mapping without `None` was accepted (has_conditional_existence(B) == 0, correctly) and resolve() then raised
'B is inactive, but `None` is missing from the mapping' for the two architectures with A=X, instead of applying the
option mapped to the selected one."""
import sys, os, tempfile, logging
os.environ['XDG_CACHE_HOME'] = tempfile.mkdtemp()
logging.disable(logging.CRITICAL)
from adsg_core import *
from adsg_core.graph.sup import *
n = {k: NamedNode(k) for k in ['S', 'n0', 'n2', 'X', 'b1', 'b2']}
src = BasicDSG()
src.add_edge(n['S'], n['n0'])
src.add_selection_choice('A', n['S'], [n['n2'], n['X']])
B = src.add_selection_choice('B', n['n2'], [n['b1'], n['b2']])
src.add_edge(n['n0'], B)
src = src.set_start_nodes({n['S']})
def archs(g, path=()):
    chs = g.get_ordered_next_choice_nodes()
    if not chs:
        yield path, g; return
    for o in g.get_option_nodes(chs[0]):
        yield from archs(g.get_for_apply_selection_choice(chs[0], o), path + (str(o),))
m = {k: NamedNode(k) for k in ['T', 't1', 't2']}
sup = SupDSG()
sc = sup.add_selection_choice('SC', m['T'], [m['t1'], m['t2']])
sup = sup.set_start_nodes({m['T']}, initialize_choices=False)
sup.add_mapping(sc, src, SupSelChoiceOptionMapping(B, {n['b1']: m['t1'], n['b2']: m['t2']}))
sup = sup.initialize_choices()
bad = 0
for p, g in archs(src):
    want = 't1' if '[b1]' in p else 't2'
    try:
        r = sup.resolve(g)
        got = sorted(str(x.name) for x in r.graph.nodes if isinstance(x, NamedNode))
        if want not in got:
            print(p, '->', got, 'expected', want); bad += 1
    except Exception as e:
        print(p, type(e).__name__, str(e)[:120]); bad += 1
print('VIOLATED' if bad else 'HOLDS'); sys.exit(1 if bad else 0)
