"""C14 / C01 witness (F24): the FAST encoder raises for in-range vectors of a feasible design space.
  (a) S -> C0 [A | B | D];  B -> C;  B -> C1 [E | F];  C incompatible with B.
      Option B necessarily confirms C and B together: the graph after C0=B is infeasible, C1 is never activated and
      stays in the graph -> RuntimeError 'Selection-choice nodes left for dv' for every vector [1, *] instead of the
      correction to a neighbour.
  (b) S -> C0 [N1 | N3 | N5];  N1 -> C1 [N2 | N3 | N5];  N3 -> C2 [N4 | N5];  N2 -> N3;  N5 x N3;  N1 x N4.
      After C0=N1, C1=N2 the graph is infeasible but still reports C2 as the next choice although the failed
      derivation removed it -> NetworkXError."""
import sys, os, tempfile, itertools, logging
os.environ['XDG_CACHE_HOME'] = tempfile.mkdtemp()
logging.disable(logging.CRITICAL)
from adsg_core import *
from adsg_core.optimization.graph_processor import GraphProcessor, SelChoiceEncoderType
def build_a():
    n = {k: NamedNode(k) for k in 'SABCDEF'}
    d = BasicDSG()
    d.add_selection_choice('C0', n['S'], [n['A'], n['B'], n['D']])
    d.add_edge(n['B'], n['C'])
    d.add_selection_choice('C1', n['B'], [n['E'], n['F']])
    d.add_incompatibility_constraint([n['C'], n['B']])
    return d.set_start_nodes({n['S']})
def build_b():
    n = {k: NamedNode(k) for k in ['S', 'N1', 'N2', 'N3', 'N4', 'N5']}
    d = BasicDSG()
    d.add_edge(n['N2'], n['N3'])
    d.add_selection_choice('C0', n['S'], [n['N1'], n['N3'], n['N5']])
    d.add_selection_choice('C1', n['N1'], [n['N2'], n['N3'], n['N5']])
    d.add_selection_choice('C2', n['N3'], [n['N4'], n['N5']])
    d.add_incompatibility_constraint([n['N5'], n['N3']])
    d.add_incompatibility_constraint([n['N1'], n['N4']])
    return d.set_start_nodes({n['S']})
bad = 0
for name, build in (('a', build_a), ('b', build_b)):
    gp = GraphProcessor(build(), encoder_type=SelChoiceEncoderType.FAST)
    for x in itertools.product(*[range(d.n_opts) for d in gp.des_vars]):
        try:
            g, xi, act = gp.get_graph(list(x))
            if not (g.feasible and g.final):
                print(name, x, 'not a final feasible instance'); bad += 1
        except Exception as e:
            print(name, x, type(e).__name__, str(e)[:80]); bad += 1
print('VIOLATED' if bad else 'HOLDS'); sys.exit(1 if bad else 0)
