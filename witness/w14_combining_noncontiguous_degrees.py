import numpy as np, itertools
from adsg_core.optimization.assign_enc.matrix import *
from adsg_core.optimization.assign_enc.encoder_registry import *
from adsg_core.optimization.assign_enc.assignment_manager import *
from adsg_core.optimization.assign_enc.patterns.encoder import InvalidPatternEncoder
from adsg_core.optimization.assign_enc.selector import EncoderSelector
s=MatrixGenSettings(src=[Node([1,3], repeated_allowed=True)], tgt=[Node(min_conn=0, repeated_allowed=True)])
for fac in PATTERN_ENCODERS:
    enc=fac(DEFAULT_LAZY_IMPUTER())
    try: am=LazyAssignmentManager(s, enc)
    except InvalidPatternEncoder: continue
    except Exception as e: print(str(enc),'CTOR',type(e).__name__,e); continue
    print(str(enc), am.design_vars, 'valid matrices', [m.tolist() for m in am.matrix_gen.get_agg_matrix()[NodeExistence()]])
    for x in itertools.product(*[range(dv.n_opts) for dv in am.design_vars]):
        try: print('  ',x, am.get_matrix(list(x))[2].tolist())
        except Exception as e: print('  ',x,'CRASH',type(e).__name__,e)
try:
    am=EncoderSelector(s).get_best_assignment_manager(cache=False); print('selected', am.encoder)
    for x in itertools.product(*[range(dv.n_opts) for dv in am.design_vars]):
        try: print('  ',x, am.get_matrix(list(x))[2].tolist())
        except Exception as e: print('  ',x,'CRASH',type(e).__name__,e)
except Exception as e: print('SELECTOR', type(e).__name__, e)
