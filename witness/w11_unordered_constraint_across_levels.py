import numpy as np, itertools
from adsg_core.graph.adsg_basic import BasicDSG
from adsg_core.graph.adsg_nodes import *
from adsg_core.graph.adsg import *
from adsg_core.optimization.graph_processor import GraphProcessor
from adsg_core.optimization.hierarchy import SelChoiceEncoderType
def build():
    n=[NamedNode(f'N{i}', obj_id=f'N{i}') for i in range(20)]
    g=BasicDSG()
    g.add_edges([(n[0],n[1])])
    cz=g.add_selection_choice('Z', n[1], [n[2],n[3],n[4]])       # level 1, sorts last
    for o in (n[2],n[3],n[4]): g.add_edge(o, n[5])
    ca=g.add_selection_choice('A', n[5], [n[6],n[7],n[8]])       # level 2, sorts first
    g=g.set_start_nodes({n[0]})
    g=g.constrain_choices(ChoiceConstraintType.UNORDERED, [cz,ca])
    return g,cz,ca
g,cz,ca=build()
print('constraint node order:', g.get_choice_constraints()[0].nodes)
for enc in (SelChoiceEncoderType.COMPLETE, SelChoiceEncoderType.FAST):
    g,cz,ca=build()
    p=GraphProcessor(g, encoder_type=enc)
    print(enc, p.des_vars)
    archs=set()
    for x in itertools.product(*[range(dv.n_opts) for dv in p.des_vars]):
        gi,xi,ia=p.get_graph(list(x))
        names=sorted(nd.name for nd in gi.graph.nodes if isinstance(nd,NamedNode))
        archs.add((tuple(xi),tuple(names)))
    for a in sorted(archs): print('  ',a)
