"""OPEN (C06 'never over-prune' / C01 / C04 through the COMPLETE encoder; not decided by any rule of /verif - see
DESIGN section 6): option nodes shared between a choice and a choice nested below one of its options, with an
incompatibility among the options.
  (a) S -> C0 [A | B | C];  A -> C1 [B | C];  C incompatible with A.
      Admitted: {S,A,B}, {S,B}, {S,C}.  The complete encoder declares one variable with 3 values but decodes x=[2] to
      {S,B}: {S,C} is unreachable (graph API and fast encoder reach it).
  (b) S -> C0 [A | B | C];  A -> C1 [B | C];  B incompatible with C.
      Admitted: 4 architectures.  Building the GraphProcessor with the complete encoder raises IndexError.
Root cause (read, not decided statically): HierarchyAnalyzer._merge_scenarios checks the coupled inputs of each side
against the selection of the *other* side only; an input node that is an option of both merged scenarios can be
confirmed by either.  Comparing per pair of combinations repairs (a) and (b) and all 57 mismatches among 1800 random
graphs, but admits a self-justified activation (test_shared_self_activation: 4 instead of 3) - the repair needs the
least-fixed-point reading of activation and is not a small patch."""
import sys, os, tempfile, itertools, logging
os.environ['XDG_CACHE_HOME'] = tempfile.mkdtemp()
logging.disable(logging.CRITICAL)
from adsg_core import *
from adsg_core.optimization.graph_processor import GraphProcessor, SelChoiceEncoderType
def build(pair):
    n = {k: NamedNode(k) for k in 'SABC'}
    d = BasicDSG()
    d.add_selection_choice('C0', n['S'], [n['A'], n['B'], n['C']])
    d.add_selection_choice('C1', n['A'], [n['B'], n['C']])
    d.add_incompatibility_constraint([n[pair[0]], n[pair[1]]])
    return d.set_start_nodes({n['S']})
def inst(g): return ''.join(sorted(str(x.name) for x in g.graph.nodes if isinstance(x, NamedNode)))
def reach(dsg, enc):
    gp = GraphProcessor(dsg, encoder_type=enc)
    out = set()
    for x in itertools.product(*[range(d.n_opts) for d in gp.des_vars]):
        g, xi, act = gp.get_graph(list(x))
        out.add(inst(g))
    return out
bad = 0
for name, pair, expect in (('a', 'CA', {'ABS', 'BS', 'CS'}), ('b', 'BC', {'ABS', 'ACS', 'BS', 'CS'})):
    for enc in (SelChoiceEncoderType.COMPLETE, SelChoiceEncoderType.FAST):
        try:
            got = reach(build(pair), enc)
            if got != expect:
                print(name, enc.name, 'reaches', sorted(got), 'admitted', sorted(expect)); bad += 1
        except Exception as e:
            print(name, enc.name, type(e).__name__, str(e)[:90]); bad += 1
print('VIOLATED' if bad else 'HOLDS'); sys.exit(1 if bad else 0)
