import numpy as np, traceback, itertools
from adsg_core.graph.adsg_basic import BasicDSG
from adsg_core.graph.adsg_nodes import *
from adsg_core.graph.adsg import *
from adsg_core.graph.graph_edges import EdgeType
from adsg_core.optimization.graph_processor import GraphProcessor
from adsg_core.optimization.hierarchy import SelChoiceEncoderType

# E5: theory-page-like example: Grp over S1 (permanent) and S2 (conditional)
def build():
    n=[NamedNode(f'N{i}', obj_id=f'N{i}') for i in range(10)]
    s1=ConnectorNode('S1', deg_list=[1], obj_id='S1'); s2=ConnectorNode('S2', deg_list=[1], obj_id='S2')
    grp=ConnectorDegreeGroupingNode('Grp')
    t1=ConnectorNode('T1', deg_list=[1], obj_id='T1'); t2=ConnectorNode('T2', deg_list=[0,1,2,3], repeated_allowed=True, obj_id='T2')
    g=BasicDSG()
    g.add_edges([(n[0],n[1]),(n[0],s1),(n[0],t1),(n[0],t2)])
    g.add_selection_choice('C1', n[1], [n[2], n[3]])
    g.add_edge(n[2], s2)
    g.add_connection_choice('C2', [(grp,[s1,s2])], [t1,t2])
    g=g.set_start_nodes({n[0]})
    return g
g=build()
p=GraphProcessor(g)
print(p.des_vars)
import itertools
xs=[list(x) for x in itertools.product(*[range(dv.n_opts) for dv in p.des_vars])]
insts=[]
for x in xs:
    gi,xi,ia=p.get_graph(x)
    insts.append((x,gi,xi,gi.feasible))
    print(x, xi, ia, 'feasible', gi.feasible, 'final', gi.final)
print('re-observe:')
for x,gi,xi,f in insts:
    if gi.feasible!=f: print('  FLIP', x, xi, 'was', f, 'now', gi.feasible)
