"""C06 witness (F22): an infeasible instance becomes "feasible" again after a later, unrelated selection - depending on
how the names of the two incompatible nodes sort.
  S -> C1 [X | Y];  S -> M -> C2 [U | V];  U -> T, V -> T;  S -> C3 [W1 | W2];  X incompatible with T.
Selecting X necessarily conflicts with T (every option of C2 derives it): the graph is reported infeasible, as it
should.  The marker edge kept for this is directed by name; when it points X -> T, the next selection (C3) treats it
as an ordinary 'confirmed source, remove the target' constraint, removes T together with the marker, and the instance
is reported feasible."""
import sys, os, tempfile
os.environ['XDG_CACHE_HOME'] = tempfile.mkdtemp()
from adsg_core import *
def build(nx_, nt_):
    dsg = BasicDSG()
    n = {k: NamedNode(k) for k in ['S', 'Y', 'U', 'V', 'W1', 'W2', 'M']}
    X, T = NamedNode(nx_), NamedNode(nt_)
    dsg.add_selection_choice('C1', n['S'], [X, n['Y']])
    dsg.add_edge(n['S'], n['M']); dsg.add_selection_choice('C2', n['M'], [n['U'], n['V']])
    dsg.add_edges([(n['U'], T), (n['V'], T)])
    dsg.add_selection_choice('C3', n['S'], [n['W1'], n['W2']])
    dsg.add_incompatibility_constraint([X, T])
    return dsg.set_start_nodes({n['S']}), X
bad = 0
for nx_, nt_ in (('aX', 'zT'), ('zX', 'aT')):
    g, X = build(nx_, nt_)
    c1 = [c for c in g.get_ordered_next_choice_nodes() if 'C1' in str(c)][0]
    g1 = g.get_for_apply_selection_choice(c1, X)
    print(nx_, nt_, 'after C1=X: feasible =', g1.feasible)
    for c3 in [c for c in g1.get_ordered_next_choice_nodes() if 'C3' in str(c) and c in g1.graph.nodes]:
        for opt in g1.get_option_nodes(c3):
            g2 = g1.get_for_apply_selection_choice(c3, opt)
            print('   then', c3, '=', opt, ': feasible =', g2.feasible)
            if g2.feasible and not g1.feasible:
                bad += 1
print('VIOLATED' if bad else 'HOLDS'); sys.exit(1 if bad else 0)
