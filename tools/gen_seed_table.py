#!/usr/bin/env python3
"""tools/gen_seed_table.py : rewrite the seed table of DESIGN.md (between the SEED-TABLE markers) from
seeded/*/meta.json and seeded/MATRIX.json (written by tools/seed_matrix.py)."""
import json, os, re
V = '/verif'
mx = json.load(open(f'{V}/seeded/MATRIX.json'))
rows = ['| seed | file (function) | needs, to manifest | reported by (rule) |', '|---|---|---|---|']
for sid in sorted(mx):
    meta = json.load(open(f'{V}/seeded/{sid}/meta.json'))
    patch = open(f'{V}/seeded/{sid}/patch.diff').read()
    files = sorted(set(re.findall(r'^\+\+\+ b/adsg_core/(\S+)', patch, re.M)))
    funcs = sorted(set(re.findall(r'^@@.*@@\s*(?:def|class)\s+(\w+)', patch, re.M)))
    needs = re.sub(r'\s+', ' ', re.sub(r'[*`|]', '', meta['needs_to_manifest'])).strip()
    needs = re.sub(r'^-?\s*(Needed to manifest|What it needs|Needs)\s*:?\s*', '', needs, flags=re.I)
    if len(needs) > 150:
        needs = needs[:147] + '...'
    m = mx[sid]
    if not m.get('applies', True):
        rep = 'patch no longer applies'
    elif m.get('obsolete'):
        rep = ('no longer breaks the property since the F23 repair (rebased: demo passes); checks silent, as expected'
               if m.get('silent_as_expected') else 'obsolete since a repair, but still reported: ' + str(m['fired']))
    elif not m['fired']:
        rep = '**missed**'
    else:
        own = m['property']
        parts = [f"{p} {'/'.join(r)}" for p, r in sorted(m['fired'].items(), key=lambda kv: (kv[0] != own, kv[0]))]
        rep = ', '.join(parts)
        if own not in m['fired']:
            rep += f' (not by {own} itself)'
    note = meta.get('caught_by', '')
    if 'missed before' in note or 'only after' in note or 'MISSED' in note:
        extra = re.search(r'(missed before[^;)]*|only after[^;)]*|MISSED[^;]*)', note)
        if extra and m['fired']:
            rep += f' — {extra.group(1).strip()}'
    rows.append(f"| {sid} | {', '.join(files)} ({', '.join(funcs) or '-'}) | {needs} | {rep} |")
live = {k: v for k, v in mx.items() if not v.get('obsolete')}
n = len(live); c = sum(1 for v in live.values() if v.get('fired')); o = sum(1 for v in live.values() if v.get('caught_by_own_check'))
rows.append('')
rows.append(f'{c} of {n} kept changes that still break their property on the current tree are reported by at least one check, {o} by the check of the property they were '
            f'written against (`tools/seed_matrix.py`, run against scratch worktrees of the current HEAD).')
txt = open(f'{V}/DESIGN.md').read()
a, b = '<!-- SEED-TABLE-BEGIN -->', '<!-- SEED-TABLE-END -->'
i, j = txt.index(a) + len(a), txt.index(b)
open(f'{V}/DESIGN.md', 'w').write(txt[:i] + '\n' + '\n'.join(rows) + '\n' + txt[j:])
print(f'{n} seeds, {c} reported, {o} by own check')
