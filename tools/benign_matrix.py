#!/usr/bin/env python3
"""tools/benign_matrix.py [id ...] : for every behaviour-preserving refactoring kept under /verif/benign/<id>/patch.diff
(written by independent sub-agents that saw only the property text and a scratch worktree; each keeps the test suite
green and was compared input-for-input with the unmodified tree by its author), apply it to a scratch worktree of
/repo's HEAD and run every claimed check against the copy.  Expected: every check stays silent (exit 0).  Writes
/verif/benign/MATRIX.json.  Development helper; /repo is not touched."""
import json, os, subprocess, sys, tempfile, shutil
from concurrent.futures import ThreadPoolExecutor
V = '/verif'
ids = [c['property_id'] for c in json.load(open(f'{V}/MANIFEST.json'))['checks']]
pats = sys.argv[1:] or sorted(d for d in os.listdir(f'{V}/benign') if os.path.isdir(f'{V}/benign/{d}'))
mpath = f'{V}/benign/MATRIX.json'
out = json.load(open(mpath)) if (sys.argv[1:] and os.path.exists(mpath)) else {}


def run_check(args):
    pid, wt, ev = args
    r = subprocess.run([f'{V}/check', pid, '--tier', 'quick', '--repo', wt], capture_output=True, text=True,
                       env=dict(os.environ, SA_EVIDENCE_DIR=ev))
    lines = [ln.strip() for ln in r.stdout.splitlines() if ln.startswith('  adsg_core') or 'ANALYSIS-ERROR' in ln]
    return pid, r.returncode, lines


for bid in pats:
    wt = tempfile.mkdtemp(prefix='benwt.'); os.rmdir(wt)
    ev = tempfile.mkdtemp(prefix='benev.')
    subprocess.run(['git', '-C', '/repo', 'worktree', 'add', '-q', '--detach', wt, 'HEAD'], check=True)
    try:
        a = subprocess.run(['git', '-C', wt, 'apply', f'{V}/benign/{bid}/patch.diff'], capture_output=True, text=True)
        if a.returncode != 0:
            out[bid] = {'applies': False}
            print(f'{bid}: PATCH DOES NOT APPLY'); continue
        with ThreadPoolExecutor(16) as ex:
            res = list(ex.map(run_check, [(p, wt, ev) for p in ids]))
        alarms = {p: [l.split()[1] + ' ' + l.split()[2].split(':')[-1] if len(l.split()) > 2 else l[:80] for l in lines][:4]
                  for p, rc, lines in res if rc == 1}
        errors = {p: (lines[0][:120] if lines else '') for p, rc, lines in res if rc not in (0, 1)}
        out[bid] = {'applies': True, 'false_alarms': alarms, 'analysis_errors': errors, 'silent': not alarms and not errors}
        print(f"{bid}: {'silent' if not alarms and not errors else 'ALARM ' + str(alarms) + ' ERR ' + str(errors)}"[:400])
    finally:
        subprocess.run(['git', '-C', '/repo', 'worktree', 'remove', '--force', wt])
        shutil.rmtree(ev, ignore_errors=True)
    json.dump(out, open(mpath, 'w'), indent=1, sort_keys=True)
ok = sum(1 for v in out.values() if v.get('silent'))
print(f'{ok}/{len(out)} refactorings leave every check silent; '
      f"{sum(1 for v in out.values() if v.get('false_alarms'))} raise a false VIOLATION, "
      f"{sum(1 for v in out.values() if v.get('analysis_errors') and not v.get('false_alarms'))} only an ANALYSIS-ERROR")
