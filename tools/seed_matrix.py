#!/usr/bin/env python3
"""tools/seed_matrix.py [seed-id ...] : for every kept seeded change, apply it to a scratch worktree of /repo's HEAD
(under /tmp, removed afterwards), run every claimed check against that copy (--repo, own evidence dir) and record
which checks report a violation.  Writes /verif/seeded/MATRIX.json and prints a table.  Development helper: the
registered checks never depend on it, and /repo itself is not touched."""
import json, os, subprocess, sys, tempfile, shutil
from concurrent.futures import ThreadPoolExecutor

V = '/verif'
ids = [c['property_id'] for c in json.load(open(f'{V}/MANIFEST.json'))['checks']]
seeds = sys.argv[1:] or sorted(d for d in os.listdir(f'{V}/seeded') if os.path.isdir(f'{V}/seeded/{d}'))
out = {}
mpath = f'{V}/seeded/MATRIX.json'
if sys.argv[1:] and os.path.exists(mpath):
    out = json.load(open(mpath))


def run_check(args):
    pid, wt, ev = args
    env = dict(os.environ, SA_EVIDENCE_DIR=ev)
    r = subprocess.run([f'{V}/check', pid, '--tier', 'quick', '--repo', wt], capture_output=True, text=True, env=env)
    rules = sorted({ln.split()[1] for ln in r.stdout.splitlines() if ln.startswith('  adsg_core') and len(ln.split()) > 1})
    constructs = sorted({ln.split()[2] for ln in r.stdout.splitlines() if ln.startswith('  adsg_core') and len(ln.split()) > 2})
    return pid, r.returncode, rules, constructs


for sid in seeds:
    wt = tempfile.mkdtemp(prefix='seedmx.'); os.rmdir(wt)
    ev = tempfile.mkdtemp(prefix='seedev.')
    subprocess.run(['git', '-C', '/repo', 'worktree', 'add', '-q', '--detach', wt, 'HEAD'], check=True)
    try:
        a = subprocess.run(['git', '-C', wt, 'apply', f'{V}/seeded/{sid}/patch.diff'], capture_output=True, text=True)
        if a.returncode != 0:
            out[sid] = {'applies': False, 'error': a.stderr.strip()[:200]}
            print(f'{sid}: PATCH DOES NOT APPLY on current HEAD')
            continue
        with ThreadPoolExecutor(16) as ex:
            res = list(ex.map(run_check, [(p, wt, ev) for p in ids]))
        fired = {p: rules for p, rc, rules, _c in res if rc == 1}
        constructs = {p: _c for p, rc, rules, _c in res if rc == 1}
        errs = [p for p, rc, _r, _c in res if rc not in (0, 1)]
        meta = json.load(open(f'{V}/seeded/{sid}/meta.json'))
        own = meta['breaks_property']
        out[sid] = {'applies': True, 'property': own, 'fired': fired, 'constructs': constructs, 'analysis_error': errs,
                    'caught_by_own_check': own in fired, 'caught': bool(fired)}
        if meta.get('obsolete_since_fix'):
            # the change no longer breaks the property on the repaired tree: the expected verdict is silence
            out[sid].update({'obsolete': True, 'silent_as_expected': not fired and not errs})
        print(f"{sid}: own={'yes' if own in fired else 'NO '} fired={ {p: ','.join(r) for p, r in fired.items()} } errors={errs}")
    finally:
        subprocess.run(['git', '-C', '/repo', 'worktree', 'remove', '--force', wt])
        shutil.rmtree(ev, ignore_errors=True)
    json.dump(out, open(mpath, 'w'), indent=1, sort_keys=True)
live = {k: v for k, v in out.items() if not v.get('obsolete')}
n = sum(1 for v in live.values() if v.get('caught'))
print(f'{n}/{len(live)} seeded changes reported by at least one check; '
      f"{sum(1 for v in live.values() if v.get('caught_by_own_check'))} by the check of the property they were written against"
      + (f"; {len(out) - len(live)} obsolete after a repair (expected silent: "
         f"{sum(1 for v in out.values() if v.get('silent_as_expected'))})" if len(out) != len(live) else ''))
