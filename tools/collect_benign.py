#!/usr/bin/env python3
"""collect_benign.py <worktree-suffix> <id-suffix>: copy <wt>/refactorings/k/{patch.diff,notes.md} of every scratch
worktree /tmp/wt/<PID><worktree-suffix> into /verif/benign/<PID>-<id-suffix><k>/ (only patches that apply to /repo HEAD)."""
import glob, os, shutil, subprocess, sys
ws, ids = sys.argv[1], sys.argv[2]
n = 0
for wt in sorted(glob.glob(f'/tmp/wt/C??{ws}')):
    pid = os.path.basename(wt)[:3]
    for d in sorted(glob.glob(f'{wt}/refactorings/*/')):
        k = os.path.basename(d.rstrip('/'))
        pf = os.path.join(d, 'patch.diff')
        if not os.path.exists(pf) or os.path.getsize(pf) == 0:
            print('missing patch', d)
            continue
        r = subprocess.run(['git', '-C', '/repo', 'apply', '--check', pf], capture_output=True, text=True)
        if r.returncode != 0:
            print('does not apply', pf, r.stderr[:200])
            continue
        dst = f'/verif/benign/{pid}-{ids}{k}'
        os.makedirs(dst, exist_ok=True)
        shutil.copy(pf, dst)
        if os.path.exists(os.path.join(d, 'notes.md')):
            shutil.copy(os.path.join(d, 'notes.md'), dst)
        n += 1
print(n, 'patches collected')
