#!/bin/sh
# tools/verify_seed.sh <mutation dir with patch.diff + demo.py> : confirm in a scratch worktree that the change
# (1) applies, (2) keeps the existing test suite green, (3) makes demo.py fail while it passes on the clean tree.
D=$1
W=$(mktemp -d /tmp/seedwt.XXXXXX); rmdir $W
git -C /repo worktree add -q --detach $W HEAD || exit 3
export XDG_CACHE_HOME=$(mktemp -d)
cd $W
/venv/bin/python $D/demo.py >/tmp/seed_clean.out 2>&1; c0=$?
git apply $D/patch.diff || { echo "PATCH DOES NOT APPLY"; cd /; git -C /repo worktree remove --force $W; exit 3; }
/venv/bin/python $D/demo.py >/tmp/seed_mut.out 2>&1; c1=$?
/venv/bin/python -m pytest -q -p no:cacheprovider --timeout=900 -x >/tmp/seed_tests.out 2>&1; t=$?
echo "demo clean exit=$c0  demo mutated exit=$c1  tests exit=$t : $(tail -1 /tmp/seed_tests.out)"
cd /; git -C /repo worktree remove --force $W; rm -rf $XDG_CACHE_HOME
[ $c0 = 0 ] && [ $c1 != 0 ] && [ $t = 0 ]
