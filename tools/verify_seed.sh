#!/bin/sh
# tools/verify_seed.sh <mutation dir with patch.diff + demo.py> : confirm in a scratch worktree that the change
# (1) applies, (2) keeps the existing test suite green, (3) makes demo.py fail while it passes on the clean tree.
# The demo is copied to <worktree>/mutations/v/ and run from the worktree root, so that whatever path logic it
# uses (cwd or three levels above the script) imports the worktree's copy of adsg_core.
D=$1
W=$(mktemp -d /tmp/seedwt.XXXXXX); rmdir $W
git -C /repo worktree add -q --detach $W HEAD || exit 3
export XDG_CACHE_HOME=$(mktemp -d)
mkdir -p $W/mutations/v && cp $D/demo.py $W/mutations/v/demo.py
cd $W; export PYTHONPATH=$W
/venv/bin/python mutations/v/demo.py >/tmp/seed_clean.out 2>&1; c0=$?
git apply $D/patch.diff || { echo "PATCH DOES NOT APPLY"; cd /; git -C /repo worktree remove --force $W; exit 3; }
rm -rf $XDG_CACHE_HOME; export XDG_CACHE_HOME=$(mktemp -d)
/venv/bin/python mutations/v/demo.py >/tmp/seed_mut.out 2>&1; c1=$?
grep -h "imported from\|^using" /tmp/seed_mut.out | head -1
/venv/bin/python -m pytest -q -p no:cacheprovider --timeout=900 -x >/tmp/seed_tests.out 2>&1; t=$?
echo "demo clean exit=$c0  demo mutated exit=$c1  tests exit=$t : $(tail -1 /tmp/seed_tests.out)"
cd /; git -C /repo worktree remove --force $W; rm -rf $XDG_CACHE_HOME
[ $c0 = 0 ] && [ $c1 != 0 ] && [ $t = 0 ]
