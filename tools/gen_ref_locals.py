#!/usr/bin/env python3
"""tools/gen_ref_locals.py : (re)generate sa/tables/ref_locals.json - per function of the package the statement
skeletons and the local names the rules were written against (see sa/normalize.py, N5).  Run on the clean tree
whenever the reference changes (a `fix:` commit, new rules that name other locals)."""
import ast, json, os, sys
sys.path.insert(0, '/verif')
from sa import normalize as N
repo = sys.argv[1] if len(sys.argv) > 1 else '/repo'
out = {}
nf = 0
files = []
for root, dirs, fs in os.walk(os.path.join(repo, 'adsg_core')):
    if '/tests' in root + '/':
        continue
    for f in sorted(fs):
        if f.endswith('.py'):
            files.append(os.path.join(root, f))
sigs = N.build_signature_index([ast.parse(open(p).read()) for p in files])
for p in sorted(files):
    rel = os.path.relpath(p, repo)[:-3].replace(os.sep, '.')
    if rel.endswith('.__init__'):
        rel = rel[:-9]
    tree = N._CallStyle(sigs).visit(N.normalize_expr_tree(ast.parse(open(p).read())))
    entry = {}
    for q, fn in N.iter_functions(tree):
        if N.function_locals(fn):
            entry[q] = N.function_signature(fn)
            nf += 1
    if entry:
        out[rel] = entry
json.dump(out, open(N.REF_FILE, 'w'), indent=0, sort_keys=True)
print(f'{len(out)} modules, {nf} functions with locals -> {N.REF_FILE}')
