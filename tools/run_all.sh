#!/bin/sh
# tools/run_all.sh [quick|thorough] : run every claimed check on /repo, print exit codes, validate evidence.
TIER=${1:-quick}
cd /verif
IDS=$(/venv/bin/python -c "import json;print(' '.join(c['property_id'] for c in json.load(open('MANIFEST.json'))['checks']))")
bad=0
for c in $IDS; do
  out=$(./check $c --tier $TIER 2>&1); rc=$?
  echo "$c rc=$rc $(echo "$out" | grep -cE '^KNOWN-FINDING') known"
  [ $rc != 0 ] && { bad=1; echo "$out" | tail -5; }
done
python3-vt - <<'PY'
import json, jsonschema, glob
sch = json.load(open('/root/.vp/EVIDENCE.schema.json'))
for f in sorted(glob.glob('/verif/evidence/C??.json')):
    jsonschema.validate(json.load(open(f)), sch)
print('evidence files valid:', len(glob.glob('/verif/evidence/C??.json')))
jsonschema.validate(json.load(open('/verif/MANIFEST.json')), json.load(open('/root/.vp/MANIFEST.schema.json')))
print('manifest valid')
PY
exit $bad
