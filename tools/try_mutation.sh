#!/bin/sh
# tools/try_mutation.sh <patch.diff> <prop> [<prop> ...] : apply a seeded change to /repo, run the checks, undo.
P=$1; shift
git -C /repo apply "$P" || exit 3
for c in "$@"; do
  out=$(/verif/check $c --tier quick 2>&1); rc=$?
  echo "== $c exit=$rc"; echo "$out" | grep -E "VIOLATION|ANALYSIS-ERROR|^  adsg_core" | head -6
done
git -C /repo checkout -- . 
