#!/usr/bin/env python3
"""Regenerates /verif/MANIFEST.json from the per-property metadata below (development helper)."""
import json, os, subprocess, importlib, sys
HERE = os.path.dirname(os.path.dirname(os.path.abspath(__file__)))
sys.path.insert(0, HERE)

NA = {
 'C04': 'Exactness/completeness of the enumerated valid vectors and their counts quantifies over the contents of '
        'numpy scenario tables built by 1.5 kLoC of data-dependent merging; no structural necessary condition '
        'beyond those claimed under C13/C15 is visible in code shape, and a formula-shape check of the counting '
        'functions would be a brittle proxy (static analysis not applicable).',
 'C09': 'Set equality between the enumerated connection matrices and the brute-force set is a '
        'numeric/combinatorial fact about runtime arrays (recursive generation, duplication constraints, numba '
        'kernels); nothing about it is visible in code shape (static analysis not applicable).',
}

CLAIMS = {}   # id -> dict(text, note, technique, design_ref); filled from sa/props/*.py META

def main():
    props = [json.loads(l) for l in open(os.path.join(HERE, 'properties.jsonl'))]
    checks, na = [], []
    for p in props:
        pid = p['id']
        path = os.path.join(HERE, 'sa', 'props', pid.lower() + '.py')
        if pid in NA:
            na.append({'property_id': pid, 'reason': NA[pid]})
            continue
        if not os.path.exists(path):
            na.append({'property_id': pid, 'reason': 'not delivered: no sound static check was completed for this '
                                                     'property in the time available'})
            continue
        mod = importlib.import_module(f'sa.props.{pid.lower()}')
        meta = getattr(mod, 'META', {})
        checks.append({
            'property_id': pid,
            'quick_cmd': f'/verif/check {pid} --tier quick',
            'thorough_cmd': f'/verif/check {pid} --tier thorough',
            'evidence_file': f'/verif/evidence/{pid}.json',
            'replay_cmd_template': '/verif/check ' + pid + ' --explain {path}',
            'engine': 'sa',
            'level_claimed': {
                'category': 'other',
                'text': meta.get('text') or ('Static analysis of the current source: ' + mod.EXPLANATION),
                'design_ref': meta.get('design_ref', f'DESIGN.md section 4, {pid}'),
            },
            'level_note': meta.get('note') or (
                'Decides the named structural clauses (necessary conditions), not the behaviour. Trusted base: the '
                "checker's model of Python control/data flow (statement CFG, reaching definitions, class-hierarchy "
                'call resolution), the committed reference/exception tables under sa/tables (semantic facts triaged '
                'by reading), third-party library semantics.'),
            'technique': meta.get('technique', 'static analysis: custom AST/CFG/call-graph rules'),
        })
    fixes = subprocess.run(['git', '-C', '/repo', 'log', '--format=%h %s', 'cf08aa5..HEAD'], capture_output=True,
                           text=True).stdout.strip().splitlines()
    man = {
        'version': 1,
        'setup_cmd': 'true',
        'hooks': {
            'guard': 'ADSG_CORE_VERIF',
            'enable': 'none needed: every check is a static analysis that parses the working tree of /repo; no hook '
                      'or instrumentation is compiled in (the guard variable is declared and unused)',
            'baseline_off_cmd': 'cd /repo && /venv/bin/python -m pytest -ra -q -p no:cacheprovider --timeout=900 '
                                '--continue-on-collection-errors',
            'source_commits': [f.split()[0] for f in fixes if ' fix:' in ' ' + f],
            'add_only': False,
        },
        'engines': [{
            'name': 'sa', 'path': '/verif/sa',
            'serves_properties': [c['property_id'] for c in checks],
            'kind_free_text': 'repository-specific static analyser (pure standard library: ast-based program '
                              'model, statement CFG with labelled edges, reaching definitions, path-sensitive '
                              'exploration, light type inference and class-hierarchy call graph); never imports or '
                              'executes adsg_core',
        }],
        'checks': checks,
        'not_applicable': na,
        'notes': 'source_commits lists the unguarded "fix:" commits made to /repo for genuine defects (recorded in '
                 '/verif/known_findings.json with status fixed); there are no hook commits. Exit codes of every '
                 'check: 0 = all obligations discharged, 1 = VIOLATION, 2 = ANALYSIS-ERROR (anchor vanished / '
                 'unrecognised idiom / self-test failed).',
    }
    json.dump(man, open(os.path.join(HERE, 'MANIFEST.json'), 'w'), indent=1)
    print(f'{len(checks)} checks, {len(na)} not applicable')

main()
