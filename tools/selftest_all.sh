#!/bin/sh
# Runs the self-test battery of every claimed property (development helper).
cd /verif
for c in $(/venv/bin/python -c "import json;print(' '.join(c['property_id'] for c in json.load(open('MANIFEST.json'))['checks']))"); do
  /venv/bin/python -m sa.selftest $c 2>&1 | grep -v "^   .*: ok" | head -6
done
