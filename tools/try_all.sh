#!/bin/sh
# tools/try_all.sh <patch.diff> : apply a seeded change to /repo, run every claimed check (parallel), undo.
P=$1
git -C /repo apply "$P" || exit 3
IDS=$(/venv/bin/python -c "import json;print(' '.join(c['property_id'] for c in json.load(open('/verif/MANIFEST.json'))['checks']))")
T=$(mktemp -d)
for c in $IDS; do ( /verif/check $c --tier quick > $T/$c.out 2>&1; echo $? > $T/$c.rc ) & done
wait
for c in $IDS; do rc=$(cat $T/$c.rc); if [ "$rc" != "0" ]; then echo "== $c exit=$rc"; grep -E "^  adsg_core|ANALYSIS-ERROR" $T/$c.out | head -4; fi; done
echo "-- checks with exit 0: $(for c in $IDS; do [ "$(cat $T/$c.rc)" = "0" ] && printf '%s ' $c; done)"
rm -rf $T
git -C /repo checkout -- .
