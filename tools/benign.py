#!/usr/bin/env python3
"""tools/benign.py <transform> [--test] : robustness probe (development helper, not a registered check).
Copies /repo's tracked tree to a scratch directory under /tmp, applies a behaviour-preserving AST transformation
to every module of the package, optionally runs the repo's test suite on the copy (--test), runs every claimed
check against the copy (own evidence dir) and prints the checks that do not exit 0.  The copy is removed.

transforms:
  rename    every local variable that is only used inside its own function body gets the suffix `_rn`
  swapcmp   `a == b` -> `b == a`, `a != b` -> `b != a`, `a < b` -> `b > a` ... (single-operator comparisons whose
            operands are side-effect free names / attributes / constants / len() calls)
  pad       a no-op statement (`pass`) is inserted before every statement of every function body
  ifnot     `if c: A else: B` (both non-empty, no elif) -> `if not c: B else: A`
  unparse   ast.unparse round trip only
"""
import ast, json, os, shutil, subprocess, sys, tempfile
sys.path.insert(0, "/verif")
from sa.transforms import TRANSFORMS, apply_to_package
from concurrent.futures import ThreadPoolExecutor

V = '/verif'


def main():
    name = sys.argv[1]
    scratch = tempfile.mkdtemp(prefix=f'benign_{name}.')
    ev = tempfile.mkdtemp(prefix='benign_ev.')
    try:
        subprocess.run(f'git -C /repo archive HEAD | tar -x -C {scratch}', shell=True, check=True)
        n = apply_to_package(os.path.join(scratch, 'adsg_core'), name)
        print(f'{name}: {n} modules transformed in {scratch}')
        if '--test' in sys.argv:
            env = dict(os.environ, PYTHONPATH=scratch, XDG_CACHE_HOME=tempfile.mkdtemp())
            r = subprocess.run(['/venv/bin/python', '-m', 'pytest', '-q', '-p', 'no:cacheprovider', '--timeout=900', '-x'],
                               cwd=scratch, env=env, capture_output=True, text=True)
            print('test suite on the transformed copy:', r.stdout.strip().splitlines()[-1] if r.stdout.strip() else r.stderr[-300:])
        ids = [c['property_id'] for c in json.load(open(f'{V}/MANIFEST.json'))['checks']]

        def run(pid):
            r = subprocess.run([f'{V}/check', pid, '--tier', 'quick', '--repo', scratch], capture_output=True, text=True,
                               env=dict(os.environ, SA_EVIDENCE_DIR=ev))
            return pid, r.returncode, r.stdout
        with ThreadPoolExecutor(16) as ex:
            res = list(ex.map(run, ids))
        bad = 0
        for pid, rc, out in res:
            if rc != 0:
                bad += 1
                print(f'== {pid} exit={rc}')
                for ln in out.splitlines():
                    if ln.startswith('  adsg_core') or 'ANALYSIS-ERROR' in ln:
                        print('   ', ln.strip()[:230])
        print(f'{name}: {len(ids) - bad}/{len(ids)} checks silent on the transformed copy')
    finally:
        shutil.rmtree(scratch, ignore_errors=True)
        shutil.rmtree(ev, ignore_errors=True)


if __name__ == '__main__':
    main()
