#!/usr/bin/env python3
"""tools/try_patch.py <patch.diff> [...] : apply each patch to a scratch worktree of /repo's HEAD (removed afterwards)
and run every claimed check against the copy; prints the checks that fire.  /repo is not touched."""
import json, os, subprocess, sys, tempfile, shutil
from concurrent.futures import ThreadPoolExecutor
V = '/verif'
ids = [c['property_id'] for c in json.load(open(f'{V}/MANIFEST.json'))['checks']]


def run_check(args):
    pid, wt, ev = args
    r = subprocess.run([f'{V}/check', pid, '--tier', 'quick', '--repo', wt], capture_output=True, text=True,
                       env=dict(os.environ, SA_EVIDENCE_DIR=ev))
    lines = [ln.strip() for ln in r.stdout.splitlines() if ln.startswith('  adsg_core') or 'ANALYSIS-ERROR' in ln]
    return pid, r.returncode, lines


for patch in sys.argv[1:]:
    wt = tempfile.mkdtemp(prefix='trywt.'); os.rmdir(wt)
    ev = tempfile.mkdtemp(prefix='tryev.')
    subprocess.run(['git', '-C', '/repo', 'worktree', 'add', '-q', '--detach', wt, 'HEAD'], check=True)
    try:
        a = subprocess.run(['git', '-C', wt, 'apply', os.path.abspath(patch)], capture_output=True, text=True)
        print(f'######## {patch}')
        if a.returncode != 0:
            print('PATCH DOES NOT APPLY', a.stderr.strip()[:300]); continue
        with ThreadPoolExecutor(16) as ex:
            res = list(ex.map(run_check, [(p, wt, ev) for p in ids]))
        for pid, rc, lines in res:
            if rc != 0:
                print(f'== {pid} exit={rc}')
                for ln in lines[:4]:
                    print('   ', ln[:230])
        print('-- silent:', ' '.join(p for p, rc, _ in res if rc == 0))
    finally:
        subprocess.run(['git', '-C', '/repo', 'worktree', 'remove', '--force', wt])
        shutil.rmtree(ev, ignore_errors=True)
