#!/bin/sh
# Runs the pinned test suite (command from /root/.vp/BASELINE.json) on a tree (default /repo) and
# reports whether every one of the 142 stable tests still passes.  Not a check: development helper.
REPO=${1:-/repo}
T=$(mktemp -d)
export XDG_CACHE_HOME=$T/cache
cd "$REPO" && /venv/bin/python -m pytest -ra -q -p no:cacheprovider --timeout=900 --continue-on-collection-errors --junitxml=$T/j.xml >$T/out.txt 2>&1
tail -3 $T/out.txt
/venv/bin/python - "$T/j.xml" <<'PY'
import json, sys, xml.etree.ElementTree as ET
base = json.load(open('/root/.vp/BASELINE.json'))
ok = set()
for tc in ET.parse(sys.argv[1]).getroot().iter('testcase'):
    if not any(c.tag in ('failure', 'error', 'skipped') for c in tc):
        ok.add(f"{tc.get('classname')}::{tc.get('name')}")
missing = [t for t in base['stable_pass'] if t not in ok]
print(f"baseline: {len(base['stable_pass'])-len(missing)}/{len(base['stable_pass'])} stable tests pass; total passing {len(ok)}")
for m in missing: print("  MISSING", m)
sys.exit(1 if missing else 0)
PY
rc=$?
rm -rf $T
exit $rc
