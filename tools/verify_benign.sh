#!/bin/sh
# tools/verify_benign.sh <benign id> : confirm in a scratch worktree that the refactoring applies to HEAD and keeps
# the existing test suite green (development helper; /repo is not touched).
B=$1
W=$(mktemp -d /tmp/benvw.XXXXXX); rmdir $W
git -C /repo worktree add -q --detach $W HEAD || exit 3
export XDG_CACHE_HOME=$(mktemp -d)
cd $W; export PYTHONPATH=$W
git apply /verif/benign/$B/patch.diff || { echo "$B PATCH DOES NOT APPLY"; cd /; git -C /repo worktree remove --force $W; exit 3; }
files=$(git diff --name-only | tr '\n' ' ')
/venv/bin/python -m pytest -q -p no:cacheprovider --timeout=900 -x >/tmp/benv_$B.out 2>&1; t=$?
echo "$B tests exit=$t : $(tail -1 /tmp/benv_$B.out) : $files"
cd /; git -C /repo worktree remove --force $W; rm -rf $XDG_CACHE_HOME
[ $t = 0 ]
