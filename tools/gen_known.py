#!/usr/bin/env python3
"""Writes /verif/known_findings.json (development helper; the checks never write this file)."""
import json, subprocess, os
HERE = os.path.dirname(os.path.dirname(os.path.abspath(__file__)))
log = subprocess.run(['git', '-C', '/repo', 'log', '--format=%h %s', 'cf08aa5..HEAD'], capture_output=True, text=True).stdout.strip().splitlines()
def commit(sub):
    for l in log:
        if sub in l:
            return l.split()[0]
    raise SystemExit('no commit for ' + sub)
F = []
def fixed(fid, props, rule, construct, what, witness, sub):
    F.append({'id': fid, 'status': 'fixed', 'properties': props, 'rule': rule, 'construct': construct,
              'what_fails': what, 'witness': witness, 'commit': commit(sub),
              'line': f'fixed: property={props[0]} {commit(sub)} {what}'})
def known(fid, props, rule, construct, what, witness, why_not_fixed):
    F.append({'id': fid, 'status': 'known', 'properties': props, 'rule': rule, 'construct': construct,
              'what_fails': what, 'witness': witness, 'why_not_fixed': why_not_fixed})

fixed('F1', ['C05', 'C15'], 'A1', 'adsg_core.optimization.hierarchy.base:HierarchyAnalyzerBase.get_graph / get_opt_idx: include_mask &= mask',
      'fix -> decode -> free: the fixed-variable mask was folded in place into the persistent feasibility mask, so 4 of 6 later decodes differed from a fresh processor', 'witness/w01', 'do not fold the caller')
fixed('F2', ['C05'], 'A3', 'adsg_core.optimization.graph_processor:GraphProcessor.get_graph: return graph_instance',
      'two decodes returned the same cached instance object; a metric value stored on it showed up in the next decode', 'witness/w01', 'always return a copy')
fixed('F3', ['C14', 'C01'], 'A10a', 'adsg_core.optimization.hierarchy.fast:FastHierarchyAnalyzer.get_graph._get_graph: return graph.copy()',
      'IndexError / unpack error decoding a graph without selection choices with the fast encoder', 'witness/w03', 'without selection choices')
fixed('F14', ['C01', 'C14'], 'A10b', 'adsg_core.optimization.hierarchy.fast:FastHierarchyAnalyzer.get_graph: graph_instance.feasible',
      "AttributeError on None instead of the explicit 'No more feasible graphs' error when every candidate is excluded", 'witness/w13', 'None dereference')
fixed('F4', ['C05', 'C14'], 'A2', 'adsg_core.optimization.hierarchy.fast:FastHierarchyAnalyzer.get_graph: for key in tried: self._imputation_cache[key] = outputs',
      'decode(T) after decode(X, create=False) differed from a fresh decode(T): every tried neighbour was memoised with the result of another vector; get_opt_idx dropped the exclusion set', 'witness/w04', 'memoises only')
fixed('F6', ['C11', 'C02', 'C01'], 'A4', 'adsg_core.graph.traversal:get_confirmed_edges_for_node|iter_out_edges|node',
      "declared vector (0,1) raised 'Node not part of connection choice': EXCLUDES edges were followed like derivations", 'witness/w06', 'does not follow connection-exclusion')
fixed('F5', ['C08', 'C11'], 'A11', 'adsg_core.graph.traversal:get_unconnected_connectors: base_conn_node.is_valid',
      'an instance reported feasible=True, then False after another instance had been created (grouping-node degree stored on the shared node)', 'witness/w05', 'recompute the degree')
fixed('F13', ['C11'], 'A4', 'adsg_core.graph.adsg_nodes:ConnectionChoiceNode.get_conn_node_derivations|nx.predecessors|graph|node',
      'two listed valid designs decoded to infeasible instances: a connector reaching a grouping node over an exclusion edge was counted as a group member', 'witness/w12', 'only connectors that derive')
fixed('F11', ['C16', 'C13'], 'A6', 'adsg_core.graph.adsg:DSG.set_des_var_value: dep_value = value',
      'a linked discrete design variable with 2 options stored index 2', 'witness/w10', 'clamp the option index')
fixed('F15', ['C10', 'C12'], 'A13', 'adsg_core.optimization.assign_enc.patterns.patterns:CombiningPatternEncoder._matches_pattern: collapsed range',
      "the selected Combining encoder raised 'Pattern encoder should never impute' on declared value 1 for source degrees 1,3", 'witness/w14', 'degrees have gaps')
fixed('F8', ['C10'], 'A13', 'adsg_core.optimization.assign_enc.patterns.patterns:PartitioningPatternEncoder._matches_pattern: tgt[0].conns',
      "Partitioning encoder raised on a declared vector for mixed required/optional targets", 'witness/w08', 'targets to be of the same kind')
fixed('F9', ['C12', 'C10'], 'A9', 'adsg_core.optimization.assign_enc.patterns.patterns:PartitioningPatternEncoder._matches_pattern: one-option variable',
      "EncoderSelector crashed ('All design variables must have at least 2 options') for a setting with exactly one connection matrix", 'witness/w08', 'without any choice')
fixed('F10', ['C12'], 'A20', 'adsg_core.optimization.assign_enc.selector:EncoderSelector._get_best_assignment_manager._create_managers: dist_corr_values',
      "ValueError 'assignment destination is read-only' under pandas copy-on-write as soon as two candidates tie (the 4 baseline-failing tests)", 'baseline', 'copy the distance-correlation')
fixed('F16', ['C20'], 'A10d', 'adsg_core.graph.sup.dsg:SupSelChoiceOptionMapping.resolve:A10d:self._mapping:node.str_context',
      "resolve() raised AttributeError ('NoneType' has no attribute 'str_context') for every source architecture in which a conditionally active, mapped source choice is active - the mandatory None entry of the mapping was dereferenced", 'witness/w16', 'skips the None (inactive) entry')
fixed('F17', ['C07'], 'A5f', 'adsg_core.optimization.assign_enc.encoding:EagerEncoder.get_design_variables:A5f:every-pattern-merged',
      'a connection variable not flagged conditionally active was inactive in a valid design (S0(0..2) -> [T0(0..2, conditional), T1(1)], Direct Matrix eager encoder: x=[0,0] reports CC_0 inactive, flag False): existence patterns needing no variable were skipped when merging the flags', 'witness/w17', 'flag their variables conditionally active')
fixed('F18', ['C11', 'C01'], 'A10g', 'adsg_core.optimization.assign_enc.matrix:AggregateAssignmentMatrixGenerator._get_n_conn_override._make_n_conn_override:A10g:max(n_conns) over override_map.values()',
      'ValueError (max() of an empty list) while building the GraphProcessor of a feasible design space: grouping connector G = {M1 (1..inf), M2 ([1], conditional)} -> T; in the scenario with M2 the group needs 2 connections, the matrix allows 1, the degree list of the pattern is empty', 'witness/w18', 'is infeasible instead of crashing')
fixed('F19', ['C10'], 'A21w', 'adsg_core.optimization.assign_enc.eager.imputation.closest:ClosestImputer.impute:A21w:raw-vector-only-cut-to-pattern-width',
      'ClosestImputer raised ValueError (broadcast (5,4) vs (6,)) and DeltaImputer never found a valid vector (invalid matrix returned) for every vector needing imputation in an existence pattern with fewer variables than the encoder as a whole (44 of 192 vectors in witness/w19)', 'witness/w19', 'cut the vector to the number of variables')
fixed('F21', ['C07', 'C14'], 'A5f', 'adsg_core.optimization.hierarchy.fast:FastHierarchyAnalyzer.get_graph._get_graph:A5f:auto-taken-choices-recorded',
      'with the fast encoder a selection choice not flagged conditionally active was reported inactive in a valid design: X permanent, P=A removes one of its two options (incompatibility), the graph takes X automatically and the analyzer never recorded it (x=[0,1] -> active [True, False]; complete encoder: [True, True]; witness/w21)', 'witness/w21', 'took automatically')
fixed('F22', ['C06'], 'A5r', 'adsg_core.graph.choices:get_mod_apply_selection_choice:A5r:infeasibility-marking-kept',
      'an instance made infeasible by selecting X (incompatible with T, which every option of another choice derives) was reported feasible again after the next, unrelated selection - only when name(X) sorts before name(T): the marking edge X->T was treated as an ordinary constraint and removed with T (witness/w22)', 'witness/w22', 'stays infeasible when further choices')
fixed('F23', ['C02', 'C01'], 'A5u', 'adsg_core.graph.adsg_basic:BasicDSG.set_start_nodes:A5u:unreachable-from-start-removed',
      'nodes of a derivation cycle that no start node derives survived set_start_nodes (only what floating *root* nodes derive was removed); a selection choice below such a cycle stayed in every instance and GraphProcessor.get_graph raised "Selection-choice nodes left" for every vector (start S, S->A, choice C under A; cycle X->Y->X with choice D under Y: witness/w23)', 'witness/w23', 'also removes derivation cycles')
fixed('F24', ['C14', 'C01'], 'A5q', 'adsg_core.optimization.hierarchy.fast:FastHierarchyAnalyzer.get_graph._get_graph:A5q:candidate-error:_get_graph:RuntimeError#1',
      'the fast encoder raised for in-range vectors of a feasible design space: an option that necessarily confirms two incompatible nodes (S -> C0[A|B|D], B -> C, B -> C1[E|F], C x B) gives an infeasible graph in which C1 is never activated -> RuntimeError "Selection-choice nodes left" for [1,*]; with a second choice level the infeasible graph still named a removed choice node -> NetworkXError (witness/w24; 31 of 1800 random graphs)', 'witness/w24', 'rejects a candidate vector whose graph becomes infeasible')
fixed('F25', ['C13', 'C01'], 'A14p', 'adsg_core.graph.choice_constraints:get_constraint_pre_removed_options:A14p:permutation-overflow-only-if-all-permanent',
      'a PERMUTATION constraint over more conditionally active choices than options removed every option of every constrained choice up front and the whole design space was reported infeasible, although choices that are not active together are unconstrained (C0 activates 1, 2 or 3 of three constrained choices with two options each: 4 architectures are admitted, GraphProcessor raised "no feasible graphs to begin with" with both encoders; witness/w26)', 'witness/w26', 'no longer remove all options up front')
fixed('F26', ['C20'], 'A6', 'adsg_core.graph.sup.dsg:SupSelChoiceOptionMapping.resolve:A6:every-originating-node-kept',
      'a source selection choice with two originating nodes (B below the conditional option n2 of choice A and, by an extra edge, below the permanent node n0) is active in every source architecture; the option mapping kept only the first in-edge, so for the architectures with n2 absent resolve() raised "B is inactive, but `None` is missing from the mapping" (with a None entry it would have applied that entry) instead of the option mapped to the selected one (witness/w27)', 'witness/w27', 'consider every originating node')
fixed('F27', ['C20', 'C08'], 'A11s', 'adsg_core.graph.sup.dsg:SupDSG._mod_graph_adjust_kwargs:A11s:derived-graph-owns-mapping-list',
      'a SupDSG with one choice mapped is copied and the second choice is mapped on the copy: the copy shared the list of choice mappings with the original, so the original (and every other copy) reported the second mapping as well (1 -> 2 entries; witness/w28)', 'witness/w28', 'gets its own list of choice mappings')
known('F7', ['C07', 'C03'], 'A6', 'adsg_core.optimization.assign_enc.encoding:EagerEncoder.get_matrix:A6:raw-vector-returned:return (list(vector) + extra_vector, matrix[i_mat, :, :])',
      'on a direct hit the eager encoder returns the input vector instead of the stored -1-marked one, so conditionally inactive variables are reported active (30 vectors in witness/w07)',
      'witness/w07', 'returning the stored vector changes what is_valid_vector(get_matrix(x)[0]) answers and breaks 6 existing tests; not a small repair')
known('F20', ['C14'], 'A5l', 'adsg_core.optimization.hierarchy.fast:FastHierarchyAnalyzer._get_selection_choice_is_forced:A5l:collapse-only-if-representative-always-active',
      'the fast encoder gives every LINKED choice but the first no variable; when the first one is inactive the others are still free, so admitted architectures are unreachable (P[A,B], Q[C,D], L1 under A, L2 under C, LINKED(L1,L2): {B,C,c2} is admitted, reachable with the complete encoder, not with the fast one - witness/w20)',
      'witness/w20', 'restricting the collapse to a permanent first choice breaks test_conditionally_active_constrained_fast (first choice conditional but implied by the others); the exact condition is an activation-implication analysis, not a small repair')
known('F12', ['C13', 'C01'], 'A15', 'adsg_core.optimization.hierarchy.complete:HierarchyAnalyzer._reduced_selection_choice_scenarios:A15:constraint-order-flow',
      'order-sensitive choice constraints are applied in influence-matrix column order; the order of constraint.nodes is never read (NoOptionError decoding a listed valid vector for UNORDERED across hierarchy levels)',
      'witness/w11', 'the repair needs the scenario merging to carry the constraint order through; not small')
json.dump({'_comment': 'Known findings of the static checks. status=known entries are matched by (rule, construct) and printed as KNOWN-FINDING lines; status=fixed entries suppress nothing (the defect was repaired by the named fix: commit in /repo and the check reports it again should it return). Never written at run time.',
           'findings': F}, open(os.path.join(HERE, 'known_findings.json'), 'w'), indent=1)
print(len(F))
