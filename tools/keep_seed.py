#!/usr/bin/env python3
"""tools/keep_seed.py <seed-id> <property> <mutation dir> "<needs>" "<caught-by>" : copy a confirmed seeded change
into /verif/seeded/<seed-id>/ with meta.json."""
import json, os, shutil, sys
sid, prop, src, needs, caught = sys.argv[1:6]
dst = os.path.join('/verif/seeded', sid)
os.makedirs(dst, exist_ok=True)
for f in ('patch.diff', 'demo.py', 'notes.md'):
    if os.path.exists(os.path.join(src, f)):
        shutil.copy(os.path.join(src, f), os.path.join(dst, f))
meta = {'id': sid, 'breaks_property': prop, 'needs_to_manifest': needs,
        'origin': 'written by an independent sub-agent that saw only the property text and a scratch worktree',
        'confirmed_by': 'tools/verify_seed.sh in a scratch worktree: patch applies; existing suite 295 passed; '
                        'demo.py exits 1 with the change and 0 without',
        'checks_run': 'tools/try_mutation.sh (git -C /repo apply; /verif/check <id>; git -C /repo checkout -- .)',
        'caught_by': caught}
json.dump(meta, open(os.path.join(dst, 'meta.json'), 'w'), indent=1)
print('kept', dst)
