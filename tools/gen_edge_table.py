#!/usr/bin/env python3
"""Regenerates sa/tables/edge_walks.json from the current tree (development helper: run only on a tree whose
walks were read through; the categories / reasons below are the triage)."""
import sys, json, os
HERE = os.path.dirname(os.path.dirname(os.path.abspath(__file__)))
sys.path.insert(0, HERE)
from sa.model import Program
from sa.rules.edges import dump_sites
p = Program()
members, out = dump_sites(p)
cat = {}
def setc(sub, c, reason, anchor=False):
    hit = [k for k in out if sub in k]
    assert hit, sub
    for k in hit:
        cat[k] = (c, reason, anchor)
D = 'derivation walk: only DERIVES/CONNECTS edges make a node exist'
A = 'adjacency of a choice node: the builder API only ever attaches DERIVES/CONNECTS edges to a choice node'
for s in ['DSG.get_originating_node', 'DSG.get_option_nodes', 'ConnectionChoiceNode.get_src_nodes', 'ConnectionChoiceNode.get_tgt_nodes', 'graph.choices:', 'SupSelChoiceOptionMapping.initialize']:
    setc(s, 'choice-adjacency', A)
for s in ['DSG._get_graph_for_export', 'DSG.get_for_adjusted', 'export:export_dot', 'export:export_drawio', 'graph_edges:iter_edges']:
    setc(s, 'copy-export', 'copy / export wants every edge')
for s in ['graph_edges:iter_in_edges', 'graph_edges:iter_out_edges', 'traversal:iter_in_edges_cached', 'traversal:iter_out_edges_cached', 'traversal:get_in_degree', 'traversal:get_out_degree', 'BasicDSG.next', 'BasicDSG.prev']:
    setc(s, 'primitive', 'filtering primitive: accepts the edge type given by its caller (all types when None)')
setc('BasicDSG._get_floating_nodes', 'derivation', D)
setc('get_derived_edges_for_node', 'derivation', D, True)
setc('get_deriving_in_edges', 'derivation', D + '; the second accepted type is the type of the edge being followed (parameter)', True)
setc('check_derives', 'derivation', D + '; CONNECTS only when connects=True', True)
setc('has_conditional_existence._derives', 'derivation', 'existence analysis follows DERIVES only', True)
setc('has_conditional_existence._maybe_derived_from_start_node', 'derivation', 'existence analysis follows DERIVES only', True)
setc('get_confirmed_edges_for_node', 'derivation', D + ' (repaired: EXCLUDES was followed, finding F6)', True)
setc('traverse_until_choice_nodes', 'derivation', D, True)
setc('get_incompatibility_deriving_nodes', 'derivation', 'necessary-deriver search follows DERIVES only', True)
setc('ConnectorDegreeGroupingNode.update_deg', 'derivation', 'members of a grouping node are the connectors that DERIVE it')
setc('ConnectionChoiceNode.get_conn_node_derivations', 'derivation', 'members of a grouping node are the connectors that DERIVE it (repaired: finding F13)', True)
setc('ConnectionChoiceNode.get_deriving_edges', 'derivation', 'DERIVES edges between sources and targets of a connection choice are dropped on apply')
setc('get_unconnected_connectors|iter_out_edges|connector_node', 'derivation', 'connector -> grouping node is a DERIVES edge')
setc('SupSelChoiceOptionMapping.resolve', 'derivation', 'the selected source option is wired by a DERIVES edge from the originating node')
setc('get_confirmed_incompatibility_edges', 'incompat-scan', 'exactly the INCOMPATIBILITY edges are constraint edges', True)
setc('get_mod_nodes_remove_incompatibilities', 'incompat-scan', 'exactly the INCOMPATIBILITY edges are constraint edges', True)
setc('ConnectionChoiceNode.get_excluded_edges', 'exclusion-scan', 'exactly the EXCLUDES edges forbid a source/target pair', True)
setc('get_unconnected_connectors|iter_in_edges|base_conn_node', 'connects-scan', 'connection degree counts CONNECTS edges only')
setc('get_unconnected_connectors|iter_out_edges|base_conn_node', 'connects-scan', 'connection degree counts CONNECTS edges only')
setc('get_unconnected_connectors|get_', 'connects-scan', 'connection degree counts CONNECTS edges only')
setc('_get_assign_nodes._is_conditional', 'adjacency-unfiltered', 'informational: only reached with check_conditional=True (never used inside the library); predecessors of a grouping node are its members and the choice node')
missing = [k for k in out if k not in cat]
assert not missing, missing
rows = {}
for k, v in out.items():
    c, r, a = cat[k]
    rows[k] = {'signature': v['signature'], 'category': c, 'reason': r}
    if a:
        rows[k]['anchor'] = True
json.dump({'_comment': 'Reference table for rule A4 (edge-type filter of every graph walk). Generated from the repaired tree by tools/gen_edge_table.py and read through once; it records semantic facts (the SET of edge types a walk accepts), not source text.  Keys: function | iterator | node argument [#ordinal for exact duplicates].',
           'members': members, 'sites': rows}, open(os.path.join(HERE, 'sa/tables/edge_walks.json'), 'w'), indent=1)
print(len(rows), 'rows')
