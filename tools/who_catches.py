#!/usr/bin/env python3
"""who_catches.py <substring>...: seeds whose reported constructs contain the substring (and whether it is the only one)."""
import json, sys
m = json.load(open('/verif/seeded/MATRIX.json'))
for sub in sys.argv[1:]:
    print('==', sub)
    for sid, rec in sorted(m.items() if isinstance(m, dict) else []):
        cons = rec.get('constructs') if isinstance(rec, dict) else None
        if not cons:
            continue
        allc = [c for cs in cons.values() for c in cs]
        hit = [c for c in allc if sub in c]
        if hit:
            print(f'  {sid}: {len(hit)}/{len(allc)} constructs', 'SOLE' if len(hit) == len(allc) else '')
